#!/usr/bin/env bash
# Run checks against a seeded property-breaking change:
#   tools/try_seeded.sh <patch.diff> <tier> <ID> [<ID>...]
# Applies the patch to /repo, runs the checks, and ALWAYS restores /repo afterwards.
set -u
PATCH="$(readlink -f "$1")"; TIER="$2"; shift 2
cd /repo || exit 2
if [ -n "$(git status --porcelain)" ]; then echo "/repo is not clean" >&2; exit 2; fi
if ! git apply --check "$PATCH" 2>/dev/null; then echo "patch does not apply" >&2; exit 2; fi
git apply "$PATCH"
restore() { git -C /repo checkout -- . ; git -C /repo clean -fdq -- . >/dev/null 2>&1; }
trap restore EXIT
OUT="${TRY_OUT:-/tmp/try_seeded.out}"; : > "$OUT"
for ID in "$@"; do
  S=$(date +%s)
  # the evidence file describes the unchanged tree: keep it aside while the check runs against the change
  EV=/verif/evidence/$ID.json; KEEP=$(mktemp); [ -f "$EV" ] && cp "$EV" "$KEEP"
  (cd /verif && VERIF_SEED="${VERIF_SEED:-1}" ./check "$ID" "$TIER") > "$OUT.$ID" 2>&1; RC=$?
  if [ -s "$KEEP" ]; then cp "$KEEP" "$EV"; else rm -f "$EV"; fi; rm -f "$KEEP"
  E=$(date +%s)
  SIGS=$(grep -c '^VIOLATION' "$OUT.$ID")
  FIRST=$(grep -A1 '^VIOLATION' "$OUT.$ID" | sed -n 2p | cut -c1-220)
  echo "$ID exit=$RC violations_printed=$SIGS wall=$((E-S))s :: $FIRST" | tee -a "$OUT"
done
