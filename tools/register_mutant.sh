#!/usr/bin/env bash
# tools/register_mutant.sh <name> <property> <mutant dir> <demo file name> <package dir> <test regex>
set -u
NAME="$1"; PROP="$2"; M="$3"; DEMO="$4"; PKG="$5"; RUN="$6"
OUT=$(/verif/tools/confirm_mutant.sh "$M" "$M/$DEMO" "$PKG" "$RUN" 2>&1 | tail -3)
echo "$OUT"
echo "$OUT" | grep -q "RESULT confirmed" || exit 1
D=/verif/seeded/$NAME; mkdir -p "$D"
cp "$M/patch.diff" "$D/patch.diff"; cp "$M/$DEMO" "$D/"; cp "$M/meta.txt" "$D/author_meta.txt"; cp "$M/README.txt" "$D/author_README.txt" 2>/dev/null
python3 - "$NAME" "$PROP" "$DEMO" "$PKG" "$RUN" <<'PY'
import json,sys
name,prop,demo,pkg,run=sys.argv[1:]
meta={"name":name,"property":prop,"needs_to_manifest":open(f"/verif/seeded/{name}/author_meta.txt").read().strip(),
 "demonstration":{"file":demo,"copy_to":pkg,"command":f"go test -vet=off -count=1 -run '{run}' ./{pkg}/"},
 "confirmed":{"how":"tools/confirm_mutant.sh in a fresh worktree of /repo HEAD: patch applies, go build ./..., existing suite passes, demonstration fails with the change and passes without","result":"confirmed"},
 "checks_run":[]}
json.dump(meta,open(f"/verif/seeded/{name}/meta.json","w"),indent=1)
PY
echo "registered $NAME"
