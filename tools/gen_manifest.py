#!/usr/bin/env python3
"""Regenerates /verif/MANIFEST.json from the table below (kept in one place so it stays valid)."""
import json, os, subprocess
V = os.path.dirname(os.path.dirname(os.path.abspath(__file__)))
props = [json.loads(l) for l in open(os.path.join(V, 'properties.jsonl'))]
ids = [p['id'] for p in props]

# id -> (category, technique, level text, level note, design ref)
CLAIMED = {
 'C18': ('exploration', 'reference-model monitor (exact rational arithmetic) over boundary + random inputs over the whole uint64 range; process-level monitors of the start-up refusal and of the real disk watchdog (pause / resume cycles, slow worker, repeated low-disk episodes)',
         'Differential oracle: every decision of the real checkThreshold is compared with an exact math/big reference on a boundary grid and seeded random triples, plus a monotonicity scan; held = no disagreement on what was explored.',
         'Trusts the 20-line reference written from the statement; inputs bounded by free <= total < 2^63.', '4/C18'),

 'C09': ('exploration', 'differential monitor on generated/mutated URL texts: repeated evaluation in fresh objects, idempotence, shape oracle (net/url), independent RFC 3986 resolver',
         'Every generated (text,parent) is normalised 8 times in fresh objects by the real NormalizeURL/URL.String; determinism, idempotence, result shape, relative resolution and query order/multiplicity are checked by oracles that never call the code under test.',
         'Reference resolver applies to an unreserved alphabet where RFC 3986 and WHATWG agree; inputs are sampled, not enumerated.', '4/C09'),
 'C11': ('exploration', 'stateless systematic enumeration of pipeline-shaped operation histories on the real model + invariant/oracle at every stage hand-off; exhaustive small trees x statuses (completion) and x leaf URLs (de-duplication)',
         'All choice vectors of the stage-operation generator within a small scope (exhaustive flag in evidence), random vectors on scopes to 200 nodes, and all small trees x status assignments; structure, CheckConsistency, dedupe (one node per URL, no URL lost) and completion iff nothing pending are asserted after every step.',
         'The operation generator mirrors which model calls the stages make in the pinned code; exhaustive only within the stated scope.', '4/C11'),

 'C12': ('exploration', 'linearizability checking (porcupine) of client-boundary histories of the real reactor + quiescent token/tracked/delivery invariants; bulk runs over the token-count axis (1..20000) with a deadlock (no-progress) monitor; race-detector builds for a quarter of the children',
         'Thousands of short concurrent histories (producers, workers, consumer, freeze/stop controller, hook-point schedule perturbation) are recorded at the API boundary and checked against a strict sequential model; token accounting, capacity and delivery conservation are asserted at quiescence.',
         'Schedules are sampled, not enumerated; clients follow the pipeline discipline (only a held seed is fed back / finished) plus deliberate unknown ids and repeated finishes.', '4/C12'),
 'C17': ('exploration', 'linearizability checking (porcupine) of concurrent histories on the real stats primitives + exact quiescent totals after bulk bursts; race detector; hook-point perturbation inside the two-word mean',
         'Histories from 8-32 goroutines on counter / rate total / mean / per-key bucket checked against sequential models, bulk bursts with exact totals, half of the children under the race detector (a race report in the stats primitives is a violation).',
         'Unit level + pipeline level (counters against the hook events of full-pipeline runs); mid-burst reads of the mean are unconstrained.', '4/C17'),

 'C13': ('exploration', 'online reference-model monitor on the hook event stream of the real token bucket under a virtual clock; concurrent waiters; race detector; manager-level scenarios on the real clock with one-sided bounds (bucket leaving the table while a request is in flight, first contact from many goroutines at once, active host across cleanup ticks); arrival-time monitor at the origin in pipeline runs',
         'Every state change of the real bucket is reported under its own mutex with the time the code used; the monitor replays the most permissive bucket the statement allows and checks window bound, token range, rate bounds, penalty rule and the direction of rate changes on each event.',
         'Per bucket lifetime (no LFU eviction); event sequences are seeded samples; penalty rule is the lower bound implied by the statement.', '4/C13'),

 'C05': ('exploration', 'stage-boundary monitor: every request leaving the real preprocessor stage judged by an independent scope predicate; filter sets installed through GenerateCrawlConfig',
         'Generated and mutated URL texts are placed as seed, redirect target and asset under generated filter sets (one child process per set) and pushed through the real preprocessor/postprocessor stages; any item that leaves with a request whose wire URL the reference predicate rejects is a violation.',
         'The fetch is fabricated; the predicate reads the host rule literally; sampled inputs.', '4/C05'),
 'C19': ('exploration', 'planted-URL completeness monitor over generated JSON/XML/RSS/Atom/sitemap/M3U8 documents and simulated S3 buckets walked through the real preprocessor+postprocessor stages',
         'Documents carry URLs with unique tokens; after the real stages ran, every planted URL must have been requested (file extension / playlist URI) or queued as outlink (hops permitting); simulated buckets (3 API styles x 4 page sizes) are walked by following the links Zeno produced until exhaustion, every non-empty object must have been emitted and the walk must stay within a request bound.',
         'Fabricated fetches (real archiver.ProcessBody); generators are samples of document shapes; playlists are well-formed (rendition groups referenced).', '4/C19'),

 'C07': ('exploration', 'planted-reference completeness monitor over generated HTML documents through the real preprocessor+postprocessor stages, expected URLs from an independent RFC 3986 resolver; configuration matrix over disable-html-tag / capture-alternate-pages / disable-assets-capture',
         'Each generated document plants references (unique token each) in img/script/link/source/video/audio attributes, srcset lists, <style> and style= url(); after the real stages ran, every required reference must have left the preprocessor as a request for exactly the expected absolute URL, and every anchor must have been handed to the queue.',
         'Fabricated fetches; documents sample the attribute x quoting x reference-form x nesting space; no <base>.', '4/C07'),

 'C08': ('exploration', 'history monitor at the boundary of the real preprocessor stage with the real LevelDB seen-store: real-time order from stamps around each pass, reference canonical URLs from an independent resolver',
         'Histories of 30-50 seeds with heavily overlapping assets (10 URLs x 8 spellings, nested assets, redirects, pool URLs reused as seeds), sequential and with 4-8 seeds in flight; a check that started after another check of the same URL ended must be skipped (modulo seed-over-asset promotion), a skipped item needs a check that could have recorded it, and no URL is fetched by two non-seed nodes of a tree.',
         'Local LevelDB store at stage level; crawl-HQ store through full-pipeline HQ-mode runs against an HQ double; pool spellings are from a safe alphabet.', '4/C08'),

 'C10': ('exploration', 'crash / CPU-and-memory-budget oracle over hostile responses served to the real preprocessor+postprocessor stages in isolated child processes (structure-aware generation incl. the full HLS tag vocabulary and site-specific key vocabularies + mutation of valid samples; configuration as part of the input); AddressSanitizer build for the cgo URL parser on hostile URL texts',
         'Each input is regenerable from (seed, index); the index is written to disk before the input is processed, so a panic anywhere in the (recover-less) stage workers or a spin beyond the CPU/memory budget is attributed to its input; hangs are confirmed alone with 5x the budget unless they match a listed finding.',
         'Inputs are sampled (no coverage guidance in the quick tier); "forever" is a CPU/memory budget; listed finding: pdfcpu loops forever on some mutated PDFs (third party, no small fix).', '4/C10'),

 'C14': ('exploration', 'enumeration of all call orders (bounded length) of pause/resume/stop/feed against the real stage workers, one child process per script, plus random concurrent scripts under hook-point perturbation and the race detector; full-pipeline runs with pauses fired by triggers in the middle of stage hand-overs and the real disk watchdog as pausing controller; structural-quiescence (stuck) oracle with goroutine dumps',
         'The real preprocessor/postprocessor/finisher workers are the subscribers; every script ends with a verdict at quiescence: all invoked calls returned, no panic, no work taken between a worker\'s acknowledgement and its resume, no acknowledged worker left blocked by a Resume that returned.',
         'Call orders at stage level, back-pressure between stages and the disk watchdog at pipeline level (stop while paused: also C03); call orders enumerated to the stated length, interleavings inside the stages sampled; stuck = no event and no return over three samples.', '4/C14'),

 'C01': ('exploration', 'offline exactly-once / ordering checker over the hook event log of full-pipeline runs + in-line tree assertion at the finish notification + quiescent reactor invariants + site-model obligations over the origin log (every URL of a delivered tree and every queued seed requested, finished rows gone from the queue database); configuration matrix incl. asynchronous WARC writing, seeded schedule perturbation, race-detector sample',
         'The whole real pipeline (controler.Start, local queue, WARC writing, real HTTP against a scripted origin on loopback) processes generated sites; per run the event log (total order) must show exactly one finish notification per accepted seed, none for unknown seeds, no stage/archiver activity for a seed after its notification, no node awaiting fetch/post-processing at the notification, an empty reactor at quiescence.',
         'Schedules sampled; quiescence = 6.5 s without hook events or open origin requests; seeds enter through hubs (input seeds) and the real LQ.', '4/C01'),

 'C02': ('exploration', 'in-line monitor at the finish notification: independent WARC reader over the job files joined with the origin log through archiver hook events (responses received per seed and URL); byte identity by SHA-1 and length; configuration matrix incl. SOCKS5 proxy; a quarter of the runs stopped gracefully in mid-flight under the same monitor',
         'At the instant a seed is about to be acknowledged to the queue, every response the archiver received for it and the discard policy accepts must be visible in the WARC files as request + response/revisit records for exactly that URL with the payload the origin sent; rejected responses must be absent; every gzip member must hold exactly one well-formed record.',
         'Synchronous WARC mode; bodies/encodings/framings/statuses sampled by a generator around the sniff, dedupe and spool thresholds; origin and crawler in one process on loopback.', '4/C02'),

 'C03': ('fault_enumeration', 'stop injection at trigger points of the hook event stream x configuration matrix, one child process per run; parent-side exit/stderr/file oracle with the independent WARC reader; in-child structural-quiescence (stuck) detector with goroutine frames',
         'Every run stops the real pipeline (controler.Stop or a real SIGTERM through WatchSignals) at a moment defined by the k-th occurrence of a pipeline event, including with some/all workers paused; the process must exit 0 without panic, leave no .open file and only complete records, and must not become quiescent with the stop outstanding.',
         'Moments and configurations are enumerated from a fixed list (quick samples the 64-point matrix, thorough covers it); origin delays bounded so that 20 s after the request only timers remain; HQ source not in this matrix.', '4/C03'),

 'C04': ('fault_enumeration', 'kill / stop injection at instrumented points (the hook handler SIGKILLs its own process at the n-th hit) and at seeded random times, restart on the same job directory; parent-side oracle over lq.db rows, the origin log of both runs, the write-through event log and the WARC files left on disk; plus Add/Get/Delete histories on the real sqlite queue re-opened after 0-1100 ms, checked against a sequential reference model across restarts',
         'Each pair (run 1 dies, run 2 restarts) is judged by set algebra: every valid row present at the death must be requested in run 2 and be gone at its quiescence; every row deleted before the death must have a matching complete response record in the files run 1 left; those files must parse record by record up to a single trailing partial member.',
         'A killed process, not a killed machine; kill points are the hook points of the claim/insert/fetch/feedback/finish/delete/add paths x occurrence; listed finding: in-progress seeds are skipped as seen after a restart when the local seencheck is on.', '4/C04'),

 'C06': ('exploration', 'bound monitors over the origin log and hook events of full-pipeline runs against an adversarial origin (positions and levels are encoded in the URLs) + stage-level hop-assignment oracle under max-hops x domains-crawl',
         'Endless redirect chains (seed and asset level), loops, endlessly nested JSON/XML/M3U8, self references and always-failing URLs are served to the real pipeline; no chain position beyond max-redirect, no nesting level beyond 3, no retry index beyond max-retry, no more than 4*(max-redirect+1) reactor passes may be observed and every seed must finish; outlink hops are compared with the rule of the statement for every generated outlink.',
         'Parameter values and server behaviours are a fixed generated family; depth rule only with domains-crawl off.', '4/C06'),

 'C15': ('fault_enumeration', 'delivery monitor over the request log of a crawl-HQ double with a scripted fault sequence (5xx, reset, stall on the k-th add/delete/get) and add/delete outages that enumerate the number of pending deliveries, driven by the real pipeline and the real gocrawlhq client; local-queue variant over hook events and lq.db',
         'Obligations are known by construction (planted outlinks of crawled pages below the hop limit, seeds handed out): at structural quiescence with the fault script exhausted each must have been carried by a successful call with value, via and hop path intact, ids acknowledged, hops surviving the round trip; in LQ mode rows carry value/via/hops, no URL is handed out twice, finished rows are gone.',
         'Fault scripts are seeded samples of finite sequences; the double mirrors the endpoints/status codes of the pinned client, not the real service.', '4/C15'),

 'C16': ('exploration', 'in-process footprint probes (goroutines, /proc/self/fd by class, temp dir, reactor and limiter shims) at two structurally quiescent points of one pipeline lifetime, after N and after 4N seeds; manager-level stress of the limiter table bound under concurrent first contacts',
         'The real pipeline processes a mix that exercises every release path (2 MiB+ spooled bodies, always-503 with retries, resets, redirects, 404s, JSON assets, more hosts than limiter buckets); the two stable footprints must agree, no temp file or tracked seed may remain, the limiter table must stay within its bound.',
         'Growth is judged between N and 4N only (N up to 100 in the thorough tier); origin in the parent process; LevelDB/log descriptors are classed apart.', '4/C16'),
}
NOT_BUILT = 'check not built yet in this session (planned, see DESIGN.md section 4)'

checks = []
for i in ids:
    if i in CLAIMED:
        cat, tech, text, note, ref = CLAIMED[i]
        checks.append({
            'property_id': i,
            'quick_cmd': f'./check {i} quick',
            'thorough_cmd': f'./check {i} thorough',
            'evidence_file': f'/verif/evidence/{i}.json',
            'replay_cmd_template': f'./check {i} --replay {{path}}',
            'engine': 'vz',
            'level_claimed': {'category': cat, 'text': text, 'design_ref': ref},
            'level_note': note,
            'technique': tech,
        })
na = [{'property_id': i, 'reason': NOT_BUILT} for i in ids if i not in CLAIMED]
hooks = subprocess.run(['git', '-C', '/repo', 'log', '--format=%H %s', '--grep', '^verif:'], capture_output=True, text=True).stdout.strip().splitlines()
m = {
 'version': 1,
 'setup_cmd': './check setup',
 'hooks': {
   'guard': 'verif (Go build tag)',
   'enable': 'go build -tags verif -modfile /verif/build/go.mod -overlay /verif/build/overlay.json ./internal/verif/cmd/vz (run from /repo by ./check)',
   'baseline_off_cmd': "cd /repo && GOFLAGS=-mod=mod go test -json -vet=off -count=1 -timeout 25m ./...",
   'source_commits': [h.split()[0] for h in hooks],
   'add_only': True,
 },
 'engines': [{'name': 'vz', 'path': '/verif/harness', 'serves_properties': sorted(CLAIMED),
              'kind_free_text': 'Go harness compiled into the Zeno module by overlay: workload generators, hook-event monitors, reference models, independent WARC reader, child-process orchestration; race detector builds'}],
 'checks': checks,
 'not_applicable': na,
 'notes': 'Technique family: runtime monitoring and sanitizers. Exit 0 held / 1 violation / 2 machinery broken. known_findings.json lists genuine defects (open) and repaired ones (fixed).',
}
json.dump(m, open(os.path.join(V, 'MANIFEST.json'), 'w'), indent=1)
print('claimed', sorted(CLAIMED), 'not claimed', len(na))
