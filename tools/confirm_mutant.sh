#!/usr/bin/env bash
# Independent confirmation of a sub-agent's change in a scratch worktree:
#   tools/confirm_mutant.sh <mutant dir with patch.diff> <demo file> <package dir> <go test -run regex> [skip-suite]
# 1 patch applies to /repo HEAD  2 builds  3 existing suite passes  4 demo fails with  5 demo passes without
set -u
M="$(readlink -f "$1")"; DEMO="$(readlink -f "$2")"; PKG="$3"; RUN="$4"; SKIP="${5:-}"
export GOFLAGS=-mod=mod GOPROXY=off
W=$(mktemp -d /tmp/mutv-XXXXXX); rmdir "$W"
git -C /repo worktree add -q --detach "$W" HEAD || exit 2
cleanup() { git -C /repo worktree remove --force "$W" >/dev/null 2>&1; }
trap cleanup EXIT
cd "$W"
git apply "$M/patch.diff" || { echo "RESULT patch-does-not-apply"; exit 1; }
go build ./... || { echo "RESULT does-not-build"; exit 1; }
if [ -z "$SKIP" ]; then
  if ! go test -vet=off -count=1 ./... > suite.log 2>&1; then grep -v "^ok\|no test files" suite.log | head -20; echo "RESULT existing-suite-fails"; exit 1; fi
fi
mkdir -p "$PKG"; cp "$DEMO" "$PKG/"
timeout 300 go test -vet=off -count=1 ${MUT_GOTEST_FLAGS:-} -run "$RUN" "./$PKG/" > with.log 2>&1; WITH=$?
git apply -R "$M/patch.diff"
timeout 300 go test -vet=off -count=1 ${MUT_GOTEST_FLAGS:-} -run "$RUN" "./$PKG/" > without.log 2>&1; WITHOUT=$?
echo "demo with change: exit $WITH; without: exit $WITHOUT"
if [ $WITH -ne 0 ] && [ $WITHOUT -eq 0 ]; then echo "RESULT confirmed"; else tail -5 with.log without.log; echo "RESULT not-confirmed"; exit 1; fi
