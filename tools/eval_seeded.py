#!/usr/bin/env python3
"""Runs checks against seeded changes and records the outcome in seeded/<name>/meta.json.
   usage: tools/eval_seeded.py <tier> [name-prefix ...]   (checks: the property's own, plus extras given as NAME:ID,ID)"""
import json, os, subprocess, sys, glob, re
tier = sys.argv[1]
sel = sys.argv[2:]
EXTRA = {'C05-host-with-port': ['C09'], 'C09-path-absolute-drops-port': ['C07'], 'C11-dedupe-redirected-loses': ['C01'], 'C01-seed-marked-failed': ['C06'],
         'C08-hasher-not-reset': [], 'C06-link-header-hops-reset': [], 'C03-unbuffered-feedback-chan': ['C02'], 'C02-shared-feedback-chan': [], 'C04-frozen-feedback-falls-through': ['C03'], 'C04b-exhausted-retry-no-warc-wait': ['C02'], 'C01b-finisher-frozen-falls-through': ['C04'], 'C02b-retried-response-not-awaited': [], 'C03b-insert-ignores-freeze-while-waiting': ['C14'],
         'C16d-filtered-seed-stays-fresh': ['C01', 'C05'], 'C01d-root-redirect-target-removed': ['C07'], 'C06d-asset-outlinks-skip-domains-gate': ['C19'],
         'C08e-hq-seencheck-sends-canonical': ['C15'], 'C11e-haswork-forgets-seen': ['C01', 'C08'], 'C12e-run-loop-drops-on-freeze': ['C03'], 'C14e-resume-sequential-backpressure': ['C03'], 'C18e-watcher-paused-flag-not-reset': ['C14'], 'C10e-ada-error-unchecked-nil-deref': ['C09'],
         'C01f-waitgroup-counts-skipped-items': ['C08', 'C16'], 'C03f-finisher-panics-on-frozen-feedback': ['C04', 'C01'], 'C04f-shared-feedback-chan-across-assets': ['C02'], 'C14f-finisher-ack-ignores-cancel': ['C03'], 'C16f-last-retry-body-not-drained': ['C02', 'C01'], 'C15f-unparsable-seed-ack-skipped': ['C10'], 'C12f-input-buffer-capped': [],
         'C17g-gauge-double-decr-on-stop-while-paused': ['C03', 'C14'], 'C04g-lq-discard-flag-sticky': ['C15', 'C01'], 'C02g-proxy-client-without-discard-hook': ['C03'], 'C16g-guard-slot-taken-by-skipped-items': ['C01', 'C08'],
         'C01h-async-retries-exceeded-waits-on-nil-chan': ['C03', 'C16'], 'C03h-warc-error-logger-exits-on-cancel': ['C02'], 'C07h-seencheck-before-dedupe': ['C08', 'C01'], 'C08h-dedupe-skips-finished-subtrees': ['C11'], 'C14h-disk-watcher-waits-for-space-on-stop': ['C03', 'C18'], 'C06h-hostonly-outlink-keeps-asset-hops': ['C19'],
         'C10i-redirect-branch-falls-through': ['C07', 'C01'], 'C18i-watcher-resumes-asynchronously': ['C14'], 'C02i-final-feedback-wait-cut-by-shutdown': ['C03', 'C04'], 'C04i-frozen-consumer-seed-sent-to-finisher': ['C03', 'C01'], 'C16i-limiter-evict-and-insert-in-two-sections': ['C13'], 'C01i-lq-finish-batch-buffer-reused': ['C04', 'C15']}
for d in sorted(glob.glob('/verif/seeded/*/')):
    name = os.path.basename(d.rstrip('/'))
    if sel and not any(name.startswith(s) for s in sel):
        continue
    if os.environ.get('SKIP_BEFORE') and name < os.environ['SKIP_BEFORE']:
        continue
    meta = json.load(open(d + 'meta.json'))
    ids = [meta['property']] + ([] if os.environ.get('NOEXTRA') else EXTRA.get(name, []))
    out = subprocess.run(['/verif/tools/try_seeded.sh', d + 'patch.diff', tier] + ids, capture_output=True, text=True, env=dict(os.environ, TRY_OUT='/tmp/try_' + name))
    for line in out.stdout.splitlines():
        m = re.match(r'(C\d+) exit=(\d+) violations_printed=(\d+) wall=(\d+)s :: (.*)', line)
        if not m:
            continue
        rec = {'check': m.group(1), 'tier': tier, 'seed': int(os.environ.get('VERIF_SEED', '1')), 'exit': int(m.group(2)), 'caught': m.group(2) == '1', 'violation_lines': int(m.group(3)), 'wall_s': int(m.group(4)), 'first_violation': m.group(5).strip()}
        meta['checks_run'] = [c for c in meta['checks_run'] if not (c['check'] == rec['check'] and c['tier'] == tier and c.get('seed') == rec['seed'])] + [rec]
        print(name, rec['check'], 'CAUGHT' if rec['caught'] else 'exit=%d' % rec['exit'], rec['first_violation'][:150])
    json.dump(meta, open(d + 'meta.json', 'w'), indent=1)
