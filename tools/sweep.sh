#!/usr/bin/env bash
# tools/sweep.sh <tier> [seed]  — runs every check once on the current tree, prints one line each
TIER="${1:-quick}"; export VERIF_SEED="${2:-1}"
cd "$(dirname "$(readlink -f "$0")")/.."
for ID in C01 C02 C03 C04 C05 C06 C07 C08 C09 C10 C11 C12 C13 C14 C15 C16 C17 C18 C19; do
  S=$(date +%s); ./check $ID $TIER > ${SWEEP_LOG:-/tmp}/sweep.$ID.$VERIF_SEED.log 2>&1; RC=$?; E=$(date +%s)
  echo "$ID seed=$VERIF_SEED exit=$RC wall=$((E-S))s $(grep -c '^VIOLATION' ${SWEEP_LOG:-/tmp}/sweep.$ID.$VERIF_SEED.log) violations, $(grep -c '^KNOWN-FINDING' ${SWEEP_LOG:-/tmp}/sweep.$ID.$VERIF_SEED.log) known :: $(tail -1 ${SWEEP_LOG:-/tmp}/sweep.$ID.$VERIF_SEED.log | cut -c1-160)"
done
