// Package vc holds what every check shares: seeds, verdict bookkeeping, known findings,
// replay files and the evidence writer.
package vc

import (
	"encoding/json"
	"fmt"
	"hash/fnv"
	"math/rand"
	"os"
	"path/filepath"
	"sort"
	"strconv"
	"strings"
	"sync"
	"time"
)

// VerifDir is /verif (from the check script).
func VerifDir() string {
	if d := os.Getenv("VERIF_DIR"); d != "" {
		return d
	}
	return "/verif"
}

// Finding is one entry of known_findings.json.
type Finding struct {
	Property  string `json:"property"`
	Signature string `json:"signature"`
	Status    string `json:"status"` // "open" (suppresses, prints KNOWN-FINDING) or "fixed" (suppresses nothing)
	Commit    string `json:"commit,omitempty"`
	What      string `json:"what"`
}

// Run is the state of one check invocation.
type Run struct {
	ID      string
	Tier    string
	Seed    int64
	Scratch string
	Start   time.Time

	mu           sync.Mutex
	violations   int
	known        map[string]int
	sigSeen      map[string]int
	inconclusive int
	inconcWhy    map[string]int
	findings     []Finding
	notes        []string
}

// NewRun reads the environment set up by ./check.
func NewRun(id, tier string) *Run {
	seed, _ := strconv.ParseInt(os.Getenv("VERIF_SEED"), 10, 64)
	if os.Getenv("VERIF_SEED") == "" {
		seed = 1
	}
	r := &Run{ID: id, Tier: tier, Seed: seed, Scratch: os.Getenv("VZ_SCRATCH"), Start: time.Now(),
		known: map[string]int{}, sigSeen: map[string]int{}, inconcWhy: map[string]int{}}
	if r.Scratch == "" {
		r.Scratch, _ = os.MkdirTemp("", "verif-"+id+"-")
	}
	b, err := os.ReadFile(filepath.Join(VerifDir(), "known_findings.json"))
	if err == nil {
		var f struct {
			Findings []Finding `json:"findings"`
		}
		if json.Unmarshal(b, &f) == nil {
			r.findings = f.Findings
		}
	}
	return r
}

// Thorough reports whether the thorough tier was requested.
func (r *Run) Thorough() bool { return r.Tier == "thorough" }

// N picks a count by tier.
func (r *Run) N(quick, thorough int) int {
	if r.Thorough() {
		return thorough
	}
	return quick
}

// Rand returns a PRNG that is a pure function of (VERIF_SEED, property id, label, indices).
func (r *Run) Rand(label string, idx ...int) *rand.Rand {
	return rand.New(rand.NewSource(DeriveSeed(r.Seed, r.ID, label, idx...)))
}

// DeriveSeed hashes the arguments into a PRNG seed.
func DeriveSeed(seed int64, id, label string, idx ...int) int64 {
	h := fnv.New64a()
	fmt.Fprintf(h, "%d|%s|%s", seed, id, label)
	for _, i := range idx {
		fmt.Fprintf(h, "|%d", i)
	}
	return int64(h.Sum64() & 0x7fffffffffffffff)
}

// Violation records a refutation. sig identifies the failing input class / call site / history shape;
// if known_findings.json lists it as open it is reported as KNOWN-FINDING instead.
// Only the first occurrence per signature writes a replay file and prints a line.
func (r *Run) Violation(sig, what string, witness any) {
	r.mu.Lock()
	defer r.mu.Unlock()
	for _, f := range r.findings {
		if f.Property == r.ID && f.Status == "open" && f.Signature == sig {
			r.known[sig]++
			if r.known[sig] == 1 {
				fmt.Printf("KNOWN-FINDING: property=%s %s [%s]\n", r.ID, f.What, sig)
			}
			return
		}
	}
	r.violations++
	r.sigSeen[sig]++
	if r.sigSeen[sig] > 1 {
		return
	}
	dir := filepath.Join(VerifDir(), "replays", r.ID)
	os.MkdirAll(dir, 0o755)
	name := sanitize(sig)
	if len(name) > 80 {
		name = name[:80]
	}
	path := filepath.Join(dir, fmt.Sprintf("%s-seed%d.json", name, r.Seed))
	b, _ := json.MarshalIndent(map[string]any{"property": r.ID, "signature": sig, "what": what, "seed": r.Seed, "tier": r.Tier, "witness": witness}, "", " ")
	os.WriteFile(path, b, 0o644)
	fmt.Printf("VIOLATION property=%s replay=%s\n", r.ID, path)
	fmt.Printf("  %s: %s\n", sig, what)
}

// IsKnown reports whether sig is listed as an open finding for this property.
func (r *Run) IsKnown(sig string) bool {
	for _, f := range r.findings {
		if f.Property == r.ID && f.Status == "open" && f.Signature == sig {
			return true
		}
	}
	return false
}

// Violations returns the number of unlisted violations so far.
func (r *Run) Violations() int { r.mu.Lock(); defer r.mu.Unlock(); return r.violations }

// Inconclusive counts a case whose verdict could not be decided (never a violation).
func (r *Run) Inconclusive(why string) {
	r.mu.Lock()
	r.inconclusive++
	r.inconcWhy[why]++
	r.mu.Unlock()
}

// Note adds a diagnostic line to the evidence.
func (r *Run) Note(format string, a ...any) {
	r.mu.Lock()
	if len(r.notes) < 200 {
		r.notes = append(r.notes, fmt.Sprintf(format, a...))
	}
	r.mu.Unlock()
}

func sanitize(s string) string {
	var b strings.Builder
	for _, c := range s {
		if c >= 'a' && c <= 'z' || c >= 'A' && c <= 'Z' || c >= '0' && c <= '9' || c == '-' || c == '_' || c == '.' {
			b.WriteRune(c)
		} else {
			b.WriteByte('_')
		}
	}
	return b.String()
}

// Finish writes /verif/evidence/<id>.json and returns the process exit code.
// minNontrivial is the stated minimum of distinct non-trivial cases: below it the run is "broken machinery" (exit 2).
func (r *Run) Finish(level string, cov map[string]any, assumptions []string, minNontrivial int) int {
	r.mu.Lock()
	defer r.mu.Unlock()
	if cov == nil {
		cov = map[string]any{}
	}
	if l, ok := cov["samples"].([]any); !ok || len(l) == 0 {
		// every check collects samples of its cases; if a run did not (all sampled children lost), say so explicitly
		cov["samples"] = []any{map[string]any{"note": "no case sample was collected in this run; see the event counters and classes for what was observed"}}
		fmt.Fprintf(os.Stderr, "%s: warning: no samples collected\n", r.ID)
	}
	cov["inconclusive"] = r.inconclusive
	if len(r.inconcWhy) > 0 {
		cov["inconclusive_reasons"] = r.inconcWhy
	}
	if len(r.known) > 0 {
		k := []string{}
		for s, n := range r.known {
			k = append(k, fmt.Sprintf("%s x%d", s, n))
		}
		sort.Strings(k)
		cov["known_findings_observed"] = k
	}
	if len(r.sigSeen) > 0 {
		k := []string{}
		for s, n := range r.sigSeen {
			k = append(k, fmt.Sprintf("%s x%d", s, n))
		}
		sort.Strings(k)
		cov["violation_signatures"] = k
	}
	if len(r.notes) > 0 {
		cov["notes"] = r.notes
	}
	ev := map[string]any{
		"property_id": r.ID, "tier": r.Tier, "seed": r.Seed, "level": level,
		"coverage": cov, "assumptions": assumptions,
		"wall_s": float64(int(time.Since(r.Start).Seconds()*100)) / 100, "violations": r.violations,
	}
	b, _ := json.MarshalIndent(ev, "", " ")
	os.MkdirAll(filepath.Join(VerifDir(), "evidence"), 0o755)
	if err := os.WriteFile(filepath.Join(VerifDir(), "evidence", r.ID+".json"), append(b, '\n'), 0o644); err != nil {
		fmt.Fprintln(os.Stderr, "cannot write evidence:", err)
		return 2
	}
	dn, _ := cov["distinct_nontrivial"].(int)
	fmt.Printf("%s %s seed=%d: evaluations=%v distinct_nontrivial=%v violations=%d known=%d inconclusive=%d wall=%.1fs\n",
		r.ID, r.Tier, r.Seed, cov["evaluations"], cov["distinct_nontrivial"], r.violations, len(r.known), r.inconclusive, time.Since(r.Start).Seconds())
	if r.violations > 0 {
		return 1
	}
	if dn < minNontrivial {
		fmt.Fprintf(os.Stderr, "%s: observed only %d distinct non-trivial cases (< %d): machinery broken, no verdict\n", r.ID, dn, minNontrivial)
		return 2
	}
	return 0
}

// Samples keeps the first n values offered (for evidence "samples").
type Samples struct {
	mu  sync.Mutex
	max int
	S   []any
}

func NewSamples(n int) *Samples { return &Samples{max: n} }
func (s *Samples) Add(v any) {
	s.mu.Lock()
	if len(s.S) < s.max {
		s.S = append(s.S, v)
	}
	s.mu.Unlock()
}
func (s *Samples) List() []any {
	s.mu.Lock()
	defer s.mu.Unlock()
	if len(s.S) == 0 {
		return []any{}
	}
	return s.S
}

// Distinct counts distinct keys (thread-safe).
type Distinct struct {
	mu sync.Mutex
	m  map[string]int
}

func NewDistinct() *Distinct { return &Distinct{m: map[string]int{}} }
func (d *Distinct) Add(k string) {
	d.mu.Lock()
	d.m[k]++
	d.mu.Unlock()
}
func (d *Distinct) Len() int { d.mu.Lock(); defer d.mu.Unlock(); return len(d.m) }
func (d *Distinct) Counts() map[string]int {
	d.mu.Lock()
	defer d.mu.Unlock()
	c := make(map[string]int, len(d.m))
	for k, v := range d.m {
		c[k] = v
	}
	return c
}
