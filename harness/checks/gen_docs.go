package checks

import (
	"bytes"
	"encoding/json"
	"encoding/xml"
	"fmt"
	"math/rand"
	"strings"
)

// Document generators with URLs planted by construction (each carries a unique token).

type planted struct {
	URL    string `json:"url"`
	Token  string `json:"token"`
	HasExt bool   `json:"has_ext"` // last path segment has a file extension (statement's rule)
	Where  string `json:"where"`
}

type tokGen struct {
	prefix string
	n      int
}

func (t *tokGen) next() string { t.n++; return fmt.Sprintf("%sx%d", t.prefix, t.n) }

// plantURL builds an absolute http(s) URL containing a fresh token.
func plantURL(r *rand.Rand, t *tokGen, where string) planted {
	tok := t.next()
	scheme := "https"
	if r.Intn(3) == 0 {
		scheme = "http"
	}
	host := pick(r, []string{"media.example", "cdn.site.example.org", "h.example:8443", "www.files.example"})
	var p planted
	p.Token, p.Where = tok, where
	switch r.Intn(9) {
	case 0: // bare host
		p.URL = fmt.Sprintf("%s://%s.example", scheme, tok)
	case 1: // host + slash
		p.URL = fmt.Sprintf("%s://%s.example/", scheme, tok)
	case 2, 3: // file with extension
		p.URL = fmt.Sprintf("%s://%s/%s/%s.%s", scheme, host, pick(r, []string{"a", "img/x", "v1/data"}), tok, pick(r, []string{"png", "jpg", "mp4", "pdf", "css", "json", "tar.gz"}))
		p.HasExt = true
	case 4: // extension + query
		p.URL = fmt.Sprintf("%s://%s/f%s.js?v=%d&k=%s", scheme, host, tok, r.Intn(100), pick(r, genVals))
		p.HasExt = true
	case 5: // page, no extension
		p.URL = fmt.Sprintf("%s://%s/page/%s", scheme, host, tok)
	case 6: // dotted directory, no extension in last segment
		p.URL = fmt.Sprintf("%s://%s/v1.2/%s", scheme, host, tok)
	case 7: // no extension, query with a dotted value
		p.URL = fmt.Sprintf("%s://%s/view%s?file=x.png", scheme, host, tok)
	default: // trailing slash
		p.URL = fmt.Sprintf("%s://%s/dir.d/%s/", scheme, host, tok)
	}
	// a fragment is not part of the path: whatever it holds (slashes, dots), the last path segment decides
	if strings.Count(p.URL, "/") > 2 && r.Intn(5) == 0 {
		p.URL += pick(r, []string{"#sec", "#/page/2", "#/release/v1.2", "#a.b", "#!/x/y.html"})
	}
	return p
}

// ---------- JSON ----------

func genJSONDoc(r *rand.Rand, t *tokGen, maxDepth int) ([]byte, []planted) {
	var ps []planted
	decoy := func() any {
		switch r.Intn(8) {
		case 0:
			return r.Intn(1000)
		case 1:
			return r.Float64()
		case 2:
			return r.Intn(2) == 0
		case 3:
			return nil
		case 4:
			return "/relative/path.png"
		case 5:
			return "plain text with spaces"
		case 6:
			return ""
		default:
			return "not-a-url:" + pick(r, genSegs)
		}
	}
	var gen func(d int, where string) any
	gen = func(d int, where string) any {
		x := r.Intn(10)
		if d >= maxDepth {
			x = r.Intn(4)
		}
		switch {
		case x < 2:
			p := plantURL(r, t, where)
			ps = append(ps, p)
			return p.URL
		case x < 4:
			return decoy()
		case x < 7:
			n := r.Intn(4)
			m := map[string]any{}
			for i := 0; i < n; i++ {
				m[fmt.Sprintf("%s%d", pick(r, genKeys), i)] = gen(d+1, where+"/obj")
			}
			return m
		case x < 9:
			n := r.Intn(4)
			a := []any{}
			for i := 0; i < n; i++ {
				a = append(a, gen(d+1, where+"/arr"))
			}
			return a
		default: // JSON embedded in a string
			var inner any
			if r.Intn(2) == 0 {
				inner = map[string]any{"u": gen(d+1, where+"/json-in-string"), "n": 1}
			} else {
				inner = []any{gen(d+1, where+"/json-in-string"), "x"}
			}
			b, _ := json.Marshal(inner)
			return string(b)
		}
	}
	root := map[string]any{"root": gen(0, "json"), "list": []any{gen(1, "json/arr"), gen(1, "json/arr")}}
	if r.Intn(4) == 0 {
		root["top"] = gen(0, "json")
	}
	var buf bytes.Buffer
	enc := json.NewEncoder(&buf)
	enc.SetEscapeHTML(r.Intn(2) == 0)
	if r.Intn(2) == 0 {
		enc.SetIndent("", pick(r, []string{"  ", "\t", " "}))
	}
	enc.Encode(root)
	out := buf.String()
	if r.Intn(3) == 0 { // "\/" is a legal JSON escape for "/"
		out = strings.ReplaceAll(out, "/", `\/`)
	}
	if r.Intn(4) == 0 { // \u escapes for ':'
		out = strings.ReplaceAll(out, "://", `\u003a//`)
	}
	return []byte(out), ps
}

// ---------- XML ----------

func xmlEsc(s string) string {
	var b bytes.Buffer
	xml.EscapeText(&b, []byte(s))
	return b.String()
}

func genXMLDoc(r *rand.Rand, t *tokGen) (body []byte, ps []planted, kind string) {
	var b strings.Builder
	b.WriteString(`<?xml version="1.0" encoding="UTF-8"?>` + "\n")
	nl := "\n"
	if r.Intn(3) == 0 {
		nl = ""
	}
	textNode := func(where string) string {
		p := plantURL(r, t, where)
		ps = append(ps, p)
		switch r.Intn(5) {
		case 0:
			return xmlEsc(p.URL)
		case 1:
			return "\n    " + xmlEsc(p.URL) + "\n  "
		case 2:
			return "<![CDATA[" + p.URL + "]]>"
		case 3:
			return "see " + xmlEsc(p.URL) + " for details"
		default:
			return " " + xmlEsc(p.URL) + " "
		}
	}
	attr := func(where string) string {
		p := plantURL(r, t, where)
		ps = append(ps, p)
		q := `"`
		if r.Intn(3) == 0 {
			q = `'`
		}
		return q + xmlEsc(p.URL) + q
	}
	switch kind = []string{"generic", "rss", "atom", "sitemap", "sitemapindex"}[r.Intn(5)]; kind {
	case "generic":
		b.WriteString(`<doc xmlns:m="urn:verif:m">` + nl)
		var rec func(d int)
		rec = func(d int) {
			n := 1 + r.Intn(3)
			for i := 0; i < n; i++ {
				tag := pick(r, []string{"item", "m:entry", "node", "ref"})
				switch r.Intn(4) {
				case 0:
					fmt.Fprintf(&b, "<%s href=%s id=\"%d\"/>%s", tag, attr("xml/attr"), i, nl)
				case 1:
					fmt.Fprintf(&b, "<%s>%s</%s>%s", tag, textNode("xml/text"), tag, nl)
				case 2:
					fmt.Fprintf(&b, "<%s src=%s>%s</%s>%s", tag, attr("xml/attr"), textNode("xml/text"), tag, nl)
				default:
					if d < 4 {
						fmt.Fprintf(&b, "<%s>%s", tag, nl)
						rec(d + 1)
						fmt.Fprintf(&b, "</%s>%s", tag, nl)
					} else {
						fmt.Fprintf(&b, "<%s>plain</%s>%s", tag, tag, nl)
					}
				}
			}
		}
		rec(0)
		b.WriteString("</doc>\n")
	case "rss":
		b.WriteString(`<rss version="2.0"><channel><title>t</title>` + nl)
		fmt.Fprintf(&b, "<link>%s</link>%s", textNode("rss/link"), nl)
		for i := 0; i < 1+r.Intn(4); i++ {
			fmt.Fprintf(&b, "<item><title>i%d</title><link>%s</link><guid>%s</guid><enclosure url=%s length=\"1\" type=\"audio/mpeg\"/></item>%s", i, textNode("rss/item/link"), textNode("rss/guid"), attr("rss/enclosure"), nl)
		}
		b.WriteString("</channel></rss>\n")
	case "atom":
		b.WriteString(`<feed xmlns="http://www.w3.org/2005/Atom"><title>t</title>` + nl)
		for i := 0; i < 1+r.Intn(4); i++ {
			fmt.Fprintf(&b, "<entry><id>%s</id><link rel=\"alternate\" href=%s/><content src=%s/></entry>%s", textNode("atom/id"), attr("atom/link"), attr("atom/content"), nl)
		}
		b.WriteString("</feed>\n")
	case "sitemap":
		b.WriteString(`<urlset xmlns="http://www.sitemaps.org/schemas/sitemap/0.9">` + nl)
		for i := 0; i < 1+r.Intn(6); i++ {
			fmt.Fprintf(&b, "<url><loc>%s</loc><lastmod>2024-01-01</lastmod></url>%s", textNode("sitemap/loc"), nl)
		}
		b.WriteString("</urlset>\n")
	default:
		b.WriteString(`<sitemapindex xmlns="http://www.sitemaps.org/schemas/sitemap/0.9">` + nl)
		for i := 0; i < 1+r.Intn(4); i++ {
			fmt.Fprintf(&b, "<sitemap><loc>%s</loc></sitemap>%s", textNode("sitemapindex/loc"), nl)
		}
		b.WriteString("</sitemapindex>\n")
	}
	return []byte(b.String()), ps, kind
}

// ---------- M3U8 ----------

type plantedURI struct {
	Ref   string `json:"ref"` // text in the playlist
	Token string `json:"token"`
	Kind  string `json:"kind"` // segment | variant | alternative-before | alternative-after-last-variant
}

func genM3U8(r *rand.Rand, t *tokGen) (body []byte, uris []plantedURI, kind string) {
	var b strings.Builder
	ref := func(k string, ext string) string {
		tok := t.next()
		var s string
		switch r.Intn(4) {
		case 0:
			s = fmt.Sprintf("https://media.example/hls/%s.%s", tok, ext)
		case 1:
			s = fmt.Sprintf("/abs/%s.%s", tok, ext)
		case 2:
			s = fmt.Sprintf("sub/%s.%s?e=%d", tok, ext, r.Intn(9))
		default:
			s = fmt.Sprintf("%s.%s", tok, ext)
		}
		uris = append(uris, plantedURI{Ref: s, Token: tok, Kind: k})
		return s
	}
	b.WriteString("#EXTM3U\n#EXT-X-VERSION:3\n")
	if r.Intn(2) == 0 {
		kind = "media"
		b.WriteString("#EXT-X-TARGETDURATION:10\n#EXT-X-MEDIA-SEQUENCE:0\n")
		for i := 0; i < 1+r.Intn(8); i++ {
			fmt.Fprintf(&b, "#EXTINF:9.009,\n%s\n", ref("segment", "ts"))
		}
		b.WriteString("#EXT-X-ENDLIST\n")
	} else {
		kind = "master"
		nv := 1 + r.Intn(4)
		subs := ""
		if r.Intn(2) == 0 { // a rendition group must be referenced by the variants that use it
			subs = `,SUBTITLES="sub"`
		}
		// a rendition without URI (audio muxed into the variants) is legal and says nothing about its neighbours
		muxed := func(name string) {
			if r.Intn(3) == 0 {
				fmt.Fprintf(&b, "#EXT-X-MEDIA:TYPE=AUDIO,GROUP-ID=\"aud\",NAME=\"%s\",AUTOSELECT=YES\n", name)
			}
		}
		muxed("muxed-first")
		if r.Intn(2) == 0 {
			fmt.Fprintf(&b, "#EXT-X-MEDIA:TYPE=AUDIO,GROUP-ID=\"aud\",NAME=\"en\",DEFAULT=YES,URI=\"%s\"\n", ref("alternative-before", "m3u8"))
		}
		muxed("muxed-middle")
		if r.Intn(3) == 0 {
			fmt.Fprintf(&b, "#EXT-X-MEDIA:TYPE=AUDIO,GROUP-ID=\"aud\",NAME=\"de\",URI=\"%s\"\n", ref("alternative-before", "m3u8"))
		}
		for i := 0; i < nv; i++ {
			fmt.Fprintf(&b, "#EXT-X-STREAM-INF:PROGRAM-ID=1,BANDWIDTH=%d,AUDIO=\"aud\"%s\n%s\n", 100000*(i+1), subs, ref("variant", "m3u8"))
			if subs != "" && i < nv-1 && r.Intn(2) == 0 {
				fmt.Fprintf(&b, "#EXT-X-MEDIA:TYPE=SUBTITLES,GROUP-ID=\"sub\",NAME=\"s%d\",URI=\"%s\"\n", i, ref("alternative-before", "m3u8"))
			}
		}
		if r.Intn(3) == 0 {
			fmt.Fprintf(&b, "#EXT-X-MEDIA:TYPE=AUDIO,GROUP-ID=\"aud\",NAME=\"fr\",URI=\"%s\"\n", ref("alternative-after-last-variant", "m3u8"))
		}
	}
	return []byte(b.String()), uris, kind
}
