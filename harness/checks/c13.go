package checks

import (
	"context"
	"fmt"
	"math"
	"math/rand"
	"os"
	"path/filepath"
	"runtime"
	"sync"
	"sync/atomic"
	"time"

	"github.com/internetarchive/Zeno/internal/pkg/archiver/ratelimiter"
	"github.com/internetarchive/Zeno/internal/pkg/verifhook"
	"github.com/internetarchive/Zeno/internal/verif/vc"
)

// C13 — per-host politeness: bounded request rate and honoured back-off penalties.
//
// The real BucketManager/tokenBucket run on a virtual clock (VerifSetClock); every state change is
// reported by the verifhook.RL hook under the bucket's own mutex, so the event stream of one bucket
// is totally ordered and stamped with the exact time the code used. An online monitor replays a
// reference bucket (capacity, configured rate, no penalties: the most permissive behaviour the
// statement allows) on the same stamps and checks the snapshot invariants and the penalty rule.

func init() {
	register("C13", c13)
	registerChild("c13", c13Child)
}

const c13Eps = 1e-6

type c13Mon struct {
	mu        sync.Mutex
	rep       *childReport
	label     string
	capacity  float64
	ideal     float64
	base      time.Time
	refTokens float64
	refLast   time.Time
	lastNow   time.Time
	prevRate  float64
	streak    int       // consecutive penalty-class failures since the last success (reference)
	noRelease time.Time // reference: no release strictly before this instant
	releases  int
	events    int
	log       []string
	flagged   map[string]bool
}

func (m *c13Mon) viol(sig, what string) {
	if m.flagged[sig] {
		return
	}
	m.flagged[sig] = true
	tailLog := m.log
	if len(tailLog) > 40 {
		tailLog = tailLog[len(tailLog)-40:]
	}
	m.rep.violation(sig, m.label+": "+what, map[string]any{"capacity": m.capacity, "rate": m.ideal, "last_events": tailLog})
}

func (m *c13Mon) rel(t time.Time) float64 { return t.Sub(m.base).Seconds() }

// on is called under the bucket's mutex.
func (m *c13Mon) on(kind string, now time.Time, tokens, refill, ideal, capacity float64, penaltyUntil time.Time, failureCount, status int) {
	m.mu.Lock()
	defer m.mu.Unlock()
	m.events++
	if kind == "release" {
		now = m.lastNow // the stamp of the refill() that immediately preceded it under the same lock
	} else {
		if now.Before(m.lastNow) {
			m.viol("clock-went-backwards", "monitor saw a decreasing time stamp")
		}
		m.lastNow = now
	}
	if len(m.log) < 4000 {
		m.log = append(m.log, fmt.Sprintf("t=%.3f %s status=%d tokens=%.4f rate=%.4f penaltyUntil=%.3f f=%d", m.rel(now), kind, status, tokens, refill, m.rel(penaltyUntil), failureCount))
	}
	// snapshot invariants
	if tokens < -c13Eps || tokens > capacity+c13Eps {
		m.viol("tokens-out-of-range", fmt.Sprintf("tokens=%v outside [0,%v] at %s", tokens, capacity, kind))
	}
	floor := math.Min(0.5, ideal)
	if kind != "refill" || true {
		if refill > ideal+c13Eps {
			m.viol("rate-above-configured", fmt.Sprintf("refill rate %v above the configured rate %v after %s(status %d)", refill, ideal, kind, status))
		}
		if refill < floor-c13Eps {
			m.viol("rate-below-floor", fmt.Sprintf("refill rate %v below min(0.5, configured %v) after %s", refill, ideal, kind))
		}
	}
	switch kind {
	case "release":
		m.releases++
		// reference bucket at the configured rate
		dt := now.Sub(m.refLast).Seconds()
		if dt > 0 {
			m.refTokens = math.Min(m.capacity, m.refTokens+dt*m.ideal)
			m.refLast = now
		}
		if m.refTokens < 1-1e-4 {
			m.viol("window-bound", fmt.Sprintf("release at t=%.4f although a bucket of capacity %v refilled at the configured rate %v/s holds only %.5f tokens: more than capacity + T*rate releases in some window", m.rel(now), m.capacity, m.ideal, m.refTokens))
		}
		m.refTokens--
		if now.Before(m.noRelease) {
			m.viol("release-during-penalty", fmt.Sprintf("release at t=%.3f but the back-off penalty runs until t=%.3f (streak %d)", m.rel(now), m.rel(m.noRelease), m.streak))
		}
	case "failure":
		switch {
		case status == 429 || status == 403 || status == 408 || status == 425:
			m.streak++
			exp := m.streak - 1
			pen := 30 * time.Second
			if exp < 3 {
				pen = time.Duration(5<<exp) * time.Second
				if pen > 30*time.Second {
					pen = 30 * time.Second
				}
			}
			if until := now.Add(pen); until.After(m.noRelease) {
				m.noRelease = until
			}
			if penaltyUntil.Sub(now) > 30*time.Second+time.Millisecond {
				m.viol("penalty-above-cap", fmt.Sprintf("penalty of %v after status %d exceeds the 30 s cap", penaltyUntil.Sub(now), status))
			}
		case status >= 500:
			if refill > m.prevRate+c13Eps {
				m.viol("5xx-raised-rate", fmt.Sprintf("status %d changed the refill rate from %v to %v (configured %v)", status, m.prevRate, refill, ideal))
			}
		default:
			if math.Abs(refill-m.prevRate) > c13Eps {
				m.viol("non-error-changed-rate", fmt.Sprintf("status %d changed the rate", status))
			}
		}
	case "success":
		m.streak = 0
		if refill < m.prevRate-c13Eps {
			m.viol("success-lowered-rate", fmt.Sprintf("success changed the refill rate from %v to %v", m.prevRate, refill))
		}
	}
	m.prevRate = refill
}

var c13Monitors sync.Map // bucket identity -> *c13Mon

func c13Sequence(rep *childReport, seed int64, idx int) {
	rng := rand.New(rand.NewSource(vc.DeriveSeed(seed, "C13", "seq", idx)))
	capacity := []float64{1, 2, 10, 150}[rng.Intn(4)]
	rate := []float64{0.1, 0.4, 0.5, 2, 50}[rng.Intn(5)]
	maxWaiters := 1 + rng.Intn(8)
	nEvents := 30 + rng.Intn(50)
	longStreak := rng.Intn(4) == 0
	ctx, cancel := context.WithCancel(context.Background())
	defer cancel()
	bm := ratelimiter.NewBucketManager(ctx, 4, capacity, rate, time.Hour)
	defer bm.Close()
	host := fmt.Sprintf("h%d.example", idx)
	base := time.Unix(1_700_000_000, 0)
	var virt atomic.Int64
	clock := func() time.Time { return base.Add(time.Duration(virt.Load())) }
	bm.VerifSetClock(host, clock)
	mon := &c13Mon{rep: rep, label: fmt.Sprintf("seq%d(cap=%v,rate=%v,waiters=%d)", idx, capacity, rate, maxWaiters), capacity: capacity, ideal: rate, base: base,
		refTokens: capacity, refLast: base, lastNow: base, prevRate: rate, flagged: map[string]bool{}}
	c13Monitors.Store(bm.VerifBucket(host), mon)
	defer c13Monitors.Delete(bm.VerifBucket(host))

	steps := []time.Duration{0, 0, 10 * time.Millisecond, 100 * time.Millisecond, time.Second, time.Second, 3 * time.Second, 7 * time.Second, 31 * time.Second}
	var outstanding atomic.Int32
	var wg sync.WaitGroup
	acquire := func() {
		outstanding.Add(1)
		wg.Add(1)
		go func() {
			defer wg.Done()
			bm.Wait(host)
			outstanding.Add(-1)
		}()
	}
	statuses := []int{429, 403, 408, 425, 500, 503, 502, 404, 200}
	for e := 0; e < nEvents; e++ {
		virt.Add(int64(steps[rng.Intn(len(steps))]))
		switch x := rng.Intn(10); {
		case x < 5:
			for outstanding.Load() >= int32(maxWaiters) {
				virt.Add(int64(time.Second))
				time.Sleep(10 * time.Millisecond)
			}
			acquire()
			if rng.Intn(2) == 0 {
				time.Sleep(time.Millisecond) // let the waiter reach the bucket before the next event
			}
		case x < 8:
			st := statuses[rng.Intn(len(statuses))]
			n := 1
			if longStreak && rng.Intn(3) == 0 {
				n = 20 + rng.Intn(60)
				st = []int{429, 403, 503}[rng.Intn(3)]
			}
			for i := 0; i < n; i++ {
				bm.AdjustOnFailure(host, st)
				if rng.Intn(4) == 0 {
					virt.Add(int64(steps[rng.Intn(4)]))
				}
			}
		default:
			bm.OnSuccess(host)
		}
	}
	// let every waiter finish: advance virtual time in big steps
	done := make(chan struct{})
	go func() { wg.Wait(); close(done) }()
	for i := 0; ; i++ {
		select {
		case <-done:
		default:
			if i > 3000 {
				rep.inconclusive("waiter-never-released")
				return
			}
			virt.Add(int64(2 * time.Second))
			time.Sleep(5 * time.Millisecond)
			continue
		}
		break
	}
	mon.mu.Lock()
	rep.event("sequences", 1)
	rep.event("releases", mon.releases)
	rep.event("hook_events", mon.events)
	if mon.releases > 0 {
		rep.distinct(fmt.Sprintf("cap%v/rate%v/w%d/streak%v/rel%d/ev%d", capacity, rate, maxWaiters, longStreak, mon.releases, mon.events))
	}
	if idx%53 == 0 {
		l := mon.log
		if len(l) > 25 {
			l = l[:25]
		}
		rep.sample(map[string]any{"capacity": capacity, "rate": rate, "waiters": maxWaiters, "first_events": l}, 2)
	}
	mon.mu.Unlock()
}

type c13Scenario struct {
	Seed  int64 `json:"seed"`
	First int   `json:"first"`
	N     int   `json:"n"`
	Par   int   `json:"par"`
	// InFlight: also run the bucket-leaves-while-a-request-is-in-flight scenarios (plain build children only:
	// they take 5 s of real time each way)
	InFlight bool `json:"in_flight"`
}

// c13ActiveHost: a manager with a short cleanup period and one host that is used continuously (gaps far below
// the period): the host must keep its bucket (and with it its penalty and token debt) across cleanup ticks.
func c13ActiveHost(rep *childReport, seed int64, idx int) {
	rng := rand.New(rand.NewSource(vc.DeriveSeed(seed, "C13", "active", idx)))
	period := 400 * time.Millisecond
	ctx, cancel := context.WithCancel(context.Background())
	defer cancel()
	bm := ratelimiter.NewBucketManager(ctx, 4, 50, 1000, period)
	defer bm.Close()
	host := fmt.Sprintf("busy%d.example", idx)
	bm.Wait(host)
	orig := bm.VerifBucket(host)
	var maxGap time.Duration
	last := time.Now()
	start := last
	replacedAfter := time.Duration(-1)
	for time.Since(start) < 3*period+time.Duration(rng.Intn(200))*time.Millisecond {
		switch rng.Intn(3) {
		case 0:
			bm.Wait(host)
		case 1:
			bm.OnSuccess(host)
		default:
			bm.AdjustOnFailure(host, 404)
		}
		now := time.Now()
		if g := now.Sub(last); g > maxGap {
			maxGap = g
		}
		last = now
		if replacedAfter < 0 && bm.VerifBucket(host) != orig {
			replacedAfter = now.Sub(start)
		}
		time.Sleep(time.Duration(5+rng.Intn(20)) * time.Millisecond)
	}
	rep.event("active_host_runs", 1)
	if maxGap > period/2 {
		rep.inconclusive("active-host-gap-too-long") // the harness itself was descheduled for too long: no verdict
		return
	}
	rep.distinct("active-host/kept-bucket")
	if replacedAfter >= 0 {
		rep.violation("bucket-replaced-while-host-in-use", fmt.Sprintf("host %s was used every %v or less, yet its bucket was dropped and recreated after %v (cleanup period %v): penalties, reduced rate and token debt of an active host are forgotten", host, maxGap, replacedAfter, period), nil)
	}
}

// c13InFlight: the bucket of a host leaves the table (LFU eviction by other hosts, or the periodic cleanup)
// while a request to that host is in flight; the failure status arrives afterwards. The next request to
// that host must still wait for the penalty. (A bucket evicted AFTER its penalty was recorded is a
// different matter - the bounded table forgets it by design - and is not produced here: nothing else
// touches the manager between the failure report and the next Wait.) Real clock, lower bound only: a
// loaded machine can only make the measured wait longer.
func c13InFlight(rep *childReport, seed int64, idx int) {
	type variant struct {
		how    string
		status int
	}
	vs := []variant{{"evicted", 429}, {"evicted", 403}, {"evicted", 408}, {"evicted", 425}, {"cleaned-up", 408}, {"cleaned-up", 429}}
	var wg sync.WaitGroup
	for k, v := range vs {
		wg.Add(1)
		go func(k int, v variant) {
			defer wg.Done()
			ctx, cancel := context.WithCancel(context.Background())
			defer cancel()
			h := fmt.Sprintf("inflight%d-%d.example", idx, k)
			var bm *ratelimiter.BucketManager
			if v.how == "evicted" {
				bm = ratelimiter.NewBucketManager(ctx, 2, 10, 100, time.Hour)
				defer bm.Close()
				bm.Wait(h) // the request to h is released and now in flight
				for _, o := range []string{"a", "a", "b", "b"} {
					bm.Wait(o + h) // two busier hosts fill the table: h is the least frequently used
				}
			} else {
				bm = ratelimiter.NewBucketManager(ctx, 8, 10, 100, 150*time.Millisecond)
				defer bm.Close()
				bm.Wait(h)
				for i := 0; i < 400 && bm.VerifBucket(h) != nil; i++ {
					time.Sleep(10 * time.Millisecond) // a slow response: nothing touches h for longer than the cleanup period
				}
			}
			if bm.VerifBucket(h) != nil {
				rep.inconclusive("in-flight-bucket-still-resident")
				return
			}
			t0 := time.Now()
			bm.AdjustOnFailure(h, v.status)
			bm.Wait(h)
			el := time.Since(t0)
			rep.event("in_flight_runs", 1)
			rep.distinct(fmt.Sprintf("in-flight/%s/%d", v.how, v.status))
			if el < 4950*time.Millisecond {
				rep.violation("penalty-lost-when-bucket-left-before-the-response/"+v.how, fmt.Sprintf("host %s: request released, bucket %s while the request was in flight, then status %d reported; the next request was released %v after the report (penalty: 5 s)", h, v.how, v.status, el.Round(time.Millisecond)), map[string]any{"how": v.how, "status": v.status, "waited_ms": el.Milliseconds()})
			}
		}(k, v)
	}
	wg.Wait()
}

// c13FirstContact: many requests for a host the manager does not know yet arrive at the same instant
// (the assets of one page on a new host). Whatever happens inside the manager, the host may be sent at
// most capacity + T x rate requests in any window: the number of Wait() calls that have returned when the
// monitor looks (T = time since the callers were let go, read together with the count) is bounded.
// Real clock, upper bound on a count that a slow machine can only make smaller.
func c13FirstContact(rep *childReport, seed int64, idx int) {
	const callers, capacity, rate = 24, 1.0, 0.1
	for round := 0; round < 120; round++ {
		ctx, cancel := context.WithCancel(context.Background())
		bm := ratelimiter.NewBucketManager(ctx, 64, capacity, rate, time.Hour)
		host := fmt.Sprintf("first%d-%d.example", idx, round)
		var ready, returned atomic.Int64
		var gate atomic.Bool
		for i := 0; i < callers; i++ {
			go func() {
				ready.Add(1)
				for !gate.Load() { // spin: the callers must reach the manager at the same instant
					runtime.Gosched()
				}
				bm.Wait(host) // the callers that find no token keep polling until the process ends
				returned.Add(1)
			}()
		}
		for ready.Load() < callers {
			time.Sleep(time.Millisecond)
		}
		t0 := time.Now()
		gate.Store(true)
		time.Sleep(120 * time.Millisecond)
		n := returned.Load()
		el := time.Since(t0).Seconds()
		bound := int64(capacity) + int64(math.Ceil(rate*el))
		rep.event("first_contact_rounds", 1)
		if n > 0 {
			rep.distinct("first-contact/released")
		}
		if n > bound {
			rep.violation("first-contact-burst-above-window-bound", fmt.Sprintf("host %s (no bucket yet): %d concurrent requests, %d released within %.2f s although capacity %.0f + %.2f s x %.1f/s allows at most %d", host, callers, n, el, capacity, el, rate, bound), map[string]any{"released": n, "elapsed_s": el, "bound": bound})
			cancel()
			bm.Close()
			return
		}
		cancel()
		bm.Close()
	}
}

func c13Child(scPath string) int {
	var sc c13Scenario
	if err := readJSON(scPath, &sc); err != nil {
		return 2
	}
	rep := newReport()
	verifhook.SetRLHandler(func(kind string, bucket any, now time.Time, tokens, refillRate, idealRate, capacity float64, penaltyUntil time.Time, failureCount, status int) {
		if m, ok := c13Monitors.Load(bucket); ok {
			m.(*c13Mon).on(kind, now, tokens, refillRate, idealRate, capacity, penaltyUntil, failureCount, status)
		}
	})
	parallel(sc.N, sc.Par, func(i int) { c13Sequence(rep, sc.Seed, sc.First+i) })
	for i := 0; i < 2; i++ {
		c13ActiveHost(rep, sc.Seed, sc.First+i)
	}
	if sc.InFlight {
		c13InFlight(rep, sc.Seed, sc.First)
		c13FirstContact(rep, sc.Seed, sc.First)
	}
	rep.Evaluations = rep.Events["sequences"]
	rep.write(os.Getenv("VZ_CHILD_DIR"))
	return 0
}

func c13(r *vc.Run) int {
	total := r.N(480, 9600)
	nChildren := r.N(8, 32)
	per := total / nChildren
	m := newMerged()
	parallel(nChildren, 8, func(i int) {
		bin := os.Getenv("VZ_BIN")
		label := fmt.Sprintf("child%d", i)
		if i%4 == 0 && os.Getenv("VZ_BIN_RACE") != "" {
			bin = os.Getenv("VZ_BIN_RACE")
			label += "-race"
		}
		sc := c13Scenario{Seed: r.Seed, First: i * per, N: per, Par: 30, InFlight: i%4 == 1}
		res := runChild(bin, "c13", sc, filepath.Join(r.Scratch, fmt.Sprintf("c13-%d", i)), 15*time.Minute)
		absorb(r, m, res, label, sc, true)
	})
	for s, n := range m.Races {
		if s == "harness-only" {
			r.Note("race report x%d with harness frames only (machinery defect, not Zeno)", n)
			continue
		}
		r.Violation("data-race/"+s, fmt.Sprintf("race detector report x%d in the rate limiter: %s", n, s), nil)
	}
	pipe := c13Pipeline(r)
	cov := map[string]any{
		"pipeline_level":      pipe,
		"evaluations":         m.Evaluations + m.Events["active_host_runs"] + m.Events["in_flight_runs"] + m.Events["first_contact_rounds"] + pipe["runs"].(int),
		"distinct_nontrivial": len(m.Distinct),
		"rule":                "(plus the active-host runs and the pipeline-level runs, counted as one evaluation each) one evaluation = one seeded sequence of 30-80 acquire/failure/success events (failure streaks up to 80) with 1-8 concurrent waiters on the real token bucket under a virtual clock; distinct = distinct (capacity, rate, waiters, streak mode, releases, hook events) with at least one release",
		"samples":             m.Samples,
		"events":              m.Events,
		"children":            m.Children,
	}
	if cov["samples"] == nil {
		cov["samples"] = []any{}
	}
	return r.Finish("exploration", cov, []string{
		"time is virtual: verdicts depend only on the stamps the code itself used under the bucket mutex",
		"reference = most permissive bucket the statement allows (capacity, configured rate); penalty lower bound = min(5s*2^(k-1),30s) for the k-th consecutive 429/403/408/425 without a success in between",
		"per bucket lifetime (hosts <= maxBuckets, no eviction), except the in-flight scenarios: a bucket that leaves the table between the release of a request and the report of its status (LFU eviction, cleanup) must not lose the penalty; a bucket evicted after its penalty was recorded is forgotten by design of the bounded table and is not produced",
		"pipeline level: arrival times of first-attempt requests per host at the origin (real clock, 0.25 s slack) must satisfy the window bound, and after a 429 no request for a not-yet-requested URL of that host may arrive for 5 s; retries of a URL are excluded because the archiver retries without consulting the limiter by design",
	}, 50)
}
