package checks

import (
	"math/rand"
	"strings"
)

// URL text generators shared by C05, C08, C09, C10.

var (
	genHosts     = []string{"a.example", "www.b-site.example", "cdn.c.example.org", "d.example:8080", "sub.deep.e.example", "xn--bcher-kva.example", "f.example:80", "g.example:443"}
	genIDNHosts  = []string{"bücher.example", "παράδειγμα.δοκιμή", "о-змладйвеклблнозеж.xn--p1ia"}
	genBadHosts  = []string{"localhost", "127.0.0.1", "intranet", "localhost:8080", "127.0.0.1:9000", "archive.org", "web.archive.org", "wayback.archive-it.org", "LOCALHOST", "127.1", "0x7f.0.0.1", "2130706433", "[::1]", "localhost.", "017700000001"}
	genSegs      = []string{"a", "b", "img", "css", "x.png", "y.js", "index.html", "v1", "data.json", "p_q", "r-s", "~t", "u.v.w", "123", "Z"}
	genKeys      = []string{"a", "b", "c", "id", "q", "page", "k1", "k2", "z", "utm_source"}
	genVals      = []string{"1", "2", "x", "hello", "A-b_c.d~e", "42", "", "v", "true"}
	genSchemes   = []string{"ftp", "mailto", "javascript", "data", "file", "ws", "wss", "gopher", "tel", "about", "blob", "HTTP", "Https", "htp"}
	genOddPieces = []string{" ", "\t", "\n", "%20", "%2F", "%3f", "%", "%zz", "\"", "'", "<", ">", "\\", "^", "`", "{", "}", "|", "#", "#frag", "?", "&", "=", ";", ":", "@", "user:pw@", "[", "]", "..", "./", "//", "\x00", "é", "日本", "%E2%82%AC", "+", ",", "!", "*", "(", ")", "$"}
)

func pick(r *rand.Rand, s []string) string { return s[r.Intn(len(s))] }

// genPath returns a path made of safe segments; dots adds ./ and ../ segments.
func genPath(r *rand.Rand, maxSeg int, dots bool, leadingSlash bool) string {
	n := r.Intn(maxSeg + 1)
	segs := []string{}
	for i := 0; i < n; i++ {
		if dots && r.Intn(4) == 0 {
			if r.Intn(2) == 0 {
				segs = append(segs, "..")
			} else {
				segs = append(segs, ".")
			}
			continue
		}
		segs = append(segs, pick(r, genSegs))
	}
	p := strings.Join(segs, "/")
	if leadingSlash {
		p = "/" + p
	}
	if n > 0 && r.Intn(5) == 0 {
		p += "/"
	}
	return p
}

type qpair struct{ K, V string }

// genQuery returns 0..max well-formed pairs (repeated keys and empty values allowed) and their text.
func genQuery(r *rand.Rand, max int) ([]qpair, string) {
	n := r.Intn(max + 1)
	if n == 0 {
		return nil, ""
	}
	ps := make([]qpair, n)
	parts := make([]string, n)
	for i := range ps {
		k := pick(r, genKeys)
		if r.Intn(4) == 0 && i > 0 {
			k = ps[r.Intn(i)].K // repeated key
		}
		v := pick(r, genVals)
		ps[i] = qpair{k, v}
		parts[i] = k + "=" + v
	}
	return ps, strings.Join(parts, "&")
}

// wfURL is a generated well-formed absolute URL with its components.
type wfURL struct {
	Scheme, Host, Path, Query string
	Pairs                     []qpair
}

func (u wfURL) String() string {
	s := u.Scheme + "://" + u.Host + u.Path
	if u.Query != "" {
		s += "?" + u.Query
	}
	return s
}

func genWFAbsolute(r *rand.Rand) wfURL {
	u := wfURL{Scheme: "http", Host: pick(r, genHosts)}
	if r.Intn(2) == 0 {
		u.Scheme = "https"
	}
	u.Path = genPath(r, 4, false, true)
	u.Pairs, u.Query = genQuery(r, 6)
	return u
}

// genMutated returns arbitrary hostile URL text derived from a well-formed one.
func genMutated(r *rand.Rand) string {
	base := genWFAbsolute(r).String()
	switch r.Intn(14) {
	case 0:
		return pick(r, genSchemes) + "://" + pick(r, genHosts) + genPath(r, 3, true, true)
	case 1:
		return pick(r, genSchemes) + ":" + genPath(r, 2, false, false)
	case 2: // bad hosts, with or without scheme
		s := pick(r, genBadHosts) + genPath(r, 2, false, true)
		if r.Intn(2) == 0 {
			s = "http://" + s
		}
		return s
	case 3: // scheme-less
		return pick(r, genHosts) + genPath(r, 3, true, true)
	case 4: // userinfo
		return "https://" + pick(r, []string{"user@", "user:pw@", "a.example@", "%40@", ":@"}) + pick(r, append(genHosts, genBadHosts...)) + genPath(r, 2, false, true)
	case 5: // IDN
		return "http://" + pick(r, genIDNHosts) + genPath(r, 2, false, true)
	case 6: // quotes / whitespace around
		q := pick(r, []string{"\"", "'", " ", "\t", "\n", "\"'", "' "})
		return q + base + q
	case 7: // fragment
		return base + "#" + pick(r, []string{"", "top", "a=b", "/x/y", "?q", "#"})
	default:
		// splice odd pieces
		b := []byte(base)
		k := 1 + r.Intn(3)
		s := string(b)
		for i := 0; i < k; i++ {
			pos := r.Intn(len(s) + 1)
			s = s[:pos] + pick(r, genOddPieces) + s[pos:]
		}
		if r.Intn(6) == 0 && len(s) > 3 {
			s = s[:r.Intn(len(s))]
		}
		return s
	}
}

// ---- independent RFC 3986 section 5.2 resolver over well-formed inputs ----

type refParts struct {
	scheme, authority, path, query string
	hasAuthority, hasQuery         bool
}

func splitRef(s string) refParts {
	var p refParts
	if i := strings.IndexByte(s, '#'); i >= 0 {
		s = s[:i]
	}
	if i := strings.IndexByte(s, '?'); i >= 0 {
		p.query, p.hasQuery = s[i+1:], true
		s = s[:i]
	}
	if i := strings.Index(s, "://"); i > 0 && isSchemeName(s[:i]) {
		p.scheme = s[:i]
		s = s[i+1:]
	}
	if strings.HasPrefix(s, "//") {
		s = s[2:]
		j := strings.IndexByte(s, '/')
		if j < 0 {
			j = len(s)
		}
		p.authority, p.hasAuthority = s[:j], true
		s = s[j:]
	}
	p.path = s
	return p
}

func isSchemeName(s string) bool {
	for i, c := range s {
		if !(c >= 'a' && c <= 'z' || c >= 'A' && c <= 'Z' || i > 0 && (c >= '0' && c <= '9' || c == '+' || c == '-' || c == '.')) {
			return false
		}
	}
	return s != ""
}

func removeDotSegments(in string) string {
	out := []string{}
	segs := strings.Split(in, "/")
	// in always starts with "/" here
	for i, s := range segs {
		if i == 0 {
			continue
		}
		last := i == len(segs)-1
		switch s {
		case ".":
			if last {
				out = append(out, "")
			}
		case "..":
			if len(out) > 0 {
				out = out[:len(out)-1]
			}
			if last {
				out = append(out, "")
			}
		default:
			out = append(out, s)
		}
	}
	return "/" + strings.Join(out, "/")
}

// resolveRef resolves a well-formed reference against a well-formed absolute base (scheme://host/path?query).
func resolveRef(base, ref string) string {
	b := splitRef(base)
	if b.path == "" {
		b.path = "/"
	}
	r := splitRef(ref)
	var t refParts
	switch {
	case r.scheme != "":
		t = r
		t.path = removeDotSegments(orSlash(r.path))
	case r.hasAuthority:
		t = r
		t.scheme = b.scheme
		t.path = removeDotSegments(orSlash(r.path))
	case r.path == "":
		t = b
		if r.hasQuery {
			t.query, t.hasQuery = r.query, true
		}
	case strings.HasPrefix(r.path, "/"):
		t = refParts{scheme: b.scheme, authority: b.authority, hasAuthority: true, path: removeDotSegments(r.path), query: r.query, hasQuery: r.hasQuery}
	default:
		merged := b.path[:strings.LastIndexByte(b.path, '/')+1] + r.path
		t = refParts{scheme: b.scheme, authority: b.authority, hasAuthority: true, path: removeDotSegments(merged), query: r.query, hasQuery: r.hasQuery}
	}
	s := t.scheme + "://" + t.authority + t.path
	if t.hasQuery && t.query != "" {
		s += "?" + t.query
	}
	return s
}

func orSlash(p string) string {
	if p == "" {
		return "/"
	}
	return p
}

// parsePairs splits a query string into ordered (key, value) pairs, percent-decoding nothing
// (generated components are from an unreserved alphabet).
func parsePairs(q string) []qpair {
	if q == "" {
		return nil
	}
	var ps []qpair
	for _, part := range strings.Split(q, "&") {
		if part == "" {
			continue
		}
		k, v, _ := strings.Cut(part, "=")
		ps = append(ps, qpair{k, v})
	}
	return ps
}
