package checks

import (
	"encoding/base32"
	"encoding/hex"
	"fmt"
	"math/rand"
	"os"
	"path/filepath"
	"strings"
	"sync"
	"time"

	"github.com/internetarchive/Zeno/internal/pkg/config"
	"github.com/internetarchive/Zeno/internal/verif/vc"
	"github.com/internetarchive/Zeno/pkg/models"
)

// C02 — accepted responses are in the WARC, byte-exact, before the seed is finished.
// In-line oracle in the finisher goroutine (hook fin.notify, i.e. before the finish message is handed
// to the queue): incremental parse of the job's WARC files with the independent reader, joined with
// the origin's log of what it sent through the archiver's hook events (seed id, URL).

func init() {
	register("C02", c02)
	registerChild("pipe-c02", c02Child)
}

type c02Scenario struct {
	Seed    int64      `json:"seed"`
	Index   int        `json:"index"`
	Cfg     pipeConfig `json:"cfg"`
	NSeeds  int        `json:"n_seeds"`
	Perturb int        `json:"perturb"`
	// UseProxy: all traffic goes through an in-process SOCKS5 proxy (--proxy): a second, separately
	// configured recording client is then the one in use
	UseProxy bool `json:"use_proxy"`
	// StopAtResp > 0: a graceful stop is requested when the k-th response has been received by the
	// archiver (its body may still be on its way into the WARC). Seeds reported finished while the stop
	// is in progress are judged by the same in-line monitor.
	StopAtResp int `json:"stop_at_resp,omitempty"`
}

func hexToB32(h string) string {
	b, _ := hex.DecodeString(h)
	return base32.StdEncoding.EncodeToString(b)
}

func c02Body(r *rand.Rand, kind string, size int) []byte {
	b := make([]byte, 0, size)
	switch kind {
	case "html":
		b = append(b, []byte("<!DOCTYPE html><html><body><p>")...)
	case "json":
		b = append(b, []byte(`{"k":"`)...)
	case "png":
		b = append(b, pngBytes...)
	case "pdf":
		b = append(b, []byte("%PDF-1.4\n%\xe2\xe3\xcf\xd3\n")...)
	}
	if len(b) > size {
		b = b[:size]
	}
	for len(b) < size {
		switch kind {
		case "text", "html", "json":
			b = append(b, byte('a'+r.Intn(26)))
			if r.Intn(60) == 0 {
				b = append(b, ' ')
			}
		default:
			b = append(b, byte(r.Intn(256)))
		}
	}
	return b[:size]
}

func c02Site(o *origin, rng *rand.Rand, nSeeds int, discard []int, heavy bool) (hubs []string, nResp int) {
	port := o.Port
	nHost := 0
	host := func() string { nHost++; return hostOf(3+nHost/250, 1+nHost%250, port) }
	sizes := []int{0, 1, 100, 1023, 1024, 1025, 2047, 2048, 2049, 5000, 65536}
	kinds := []string{"text", "html", "json", "png", "pdf", "bin"}
	ctypes := map[string]string{"text": "text/plain", "html": "text/html", "json": "application/json", "png": "image/png", "pdf": "application/pdf", "bin": "application/octet-stream"}
	var shared [][]byte // identical payloads under different URLs (revisit path)
	for i := 0; i < 3; i++ {
		shared = append(shared, c02Body(rng, "bin", 1500+i*997))
	}
	var anchors []string
	for s := 0; s < nSeeds; s++ {
		h := host()
		var assets []string
		n := 2 + rng.Intn(7)
		for a := 0; a < n; a++ {
			uri := fmt.Sprintf("/f/%d-%d.dat", a, rng.Int63n(1<<40))
			kind := kinds[rng.Intn(len(kinds))]
			size := sizes[rng.Intn(len(sizes))]
			if rng.Intn(40) == 0 {
				size = []int{2097151, 2097152, 2097153}[rng.Intn(3)]
				kind = pick(rng, []string{"text", "bin"})
			}
			if heavy && rng.Intn(3) == 0 { // many large incompressible bodies: the WARC writer lags behind the fetches
				size, kind = (2<<20)+rng.Intn(2<<20), "bin"
			}
			rt := &route{Status: 200, Headers: map[string]string{"Content-Type": ctypes[kind]}, Body: c02Body(rng, kind, size), Chunked: rng.Intn(3) == 0, Gzip: rng.Intn(4) == 0 && size > 0, Tag: kind}
			switch x := rng.Intn(20); {
			case x == 0:
				rt.Status, rt.Tag = 404, "404"
			case x == 1:
				rt.Status, rt.Tag = 410, "410"
			case x == 2:
				rt.Status, rt.Tag = 500, "500"
			case x == 3:
				rt.Status, rt.Tag = 503, "503"
			case x == 4:
				rt.Status, rt.Tag = 429, "429"
			case x == 5:
				rt.Status, rt.Tag, rt.Body = 204, "204", nil
			case x == 6:
				rt.Status, rt.Tag = 403, "403"
			case x == 7:
				rt.Status, rt.Tag = 403, "cf-challenge"
				rt.Headers["cf-mitigated"] = "challenge"
			case x == 8: // redirect to a leaf
				to := uri + ".target"
				o.set(h, to, &route{Status: 200, Headers: map[string]string{"Content-Type": "image/png"}, Body: c02Body(rng, "png", 300), Tag: "redirect-target"})
				rt.Status, rt.Tag, rt.Headers = pick2(rng, 301, 302), "redirect", map[string]string{"Location": to, "Content-Type": "text/html"}
				rt.Body = []byte("<a href=x>moved</a>")
			case x == 9: // fail once (discarded status or 5xx) then fine
				rt.FailFirst, rt.FailStatus, rt.Tag = 1, []int{429, 500, 503}[rng.Intn(3)], "fail-once"
				if rng.Intn(2) == 0 { // a large error page: its records take long to hash and write, the retry is answered at once
					rt.FailBody = c02Body(rng, "bin", []int{65536, 1 << 20, 6 << 20}[rng.Intn(3)])
					rt.Tag = "fail-once-large-error-body"
				}
			case x == 10 || x == 11: // shared payload
				rt.Body, rt.Gzip, rt.Tag = shared[rng.Intn(len(shared))], false, "shared-payload"
				rt.Headers["Content-Type"] = "application/octet-stream"
			}
			_ = discard
			o.set(h, uri, rt)
			assets = append(assets, "http://"+h+uri)
			nResp++
		}
		page := fmt.Sprintf("/p%d.html", s)
		o.set(h, page, &route{Status: 200, Headers: map[string]string{"Content-Type": "text/html"}, Body: htmlPage("p", assets, nil), Chunked: rng.Intn(2) == 0, Gzip: rng.Intn(3) == 0, Tag: "page"})
		anchors = append(anchors, "http://"+h+page)
	}
	hh := host()
	o.set(hh, "/hub.html", &route{Status: 200, Headers: map[string]string{"Content-Type": "text/html"}, Body: htmlPage("hub", nil, anchors), Tag: "hub"})
	return []string{"http://" + hh + "/hub.html"}, nResp
}

func c02Child(scPath string) int {
	var sc c02Scenario
	if err := readJSON(scPath, &sc); err != nil {
		return 2
	}
	dir := os.Getenv("VZ_CHILD_DIR")
	rep := newReport()
	defer rep.write(dir)
	pr := newPipeRun(dir, sc.Cfg)
	org, err := newOrigin(pr.nextSeq)
	if err != nil {
		rep.violation("harness/origin", err.Error(), nil)
		return 0
	}
	pr.org = org
	if sc.UseProxy {
		px, err := newSocks5()
		if err != nil {
			rep.violation("harness/proxy", err.Error(), nil)
			return 0
		}
		pr.Cfg.Proxy = fmt.Sprintf("socks5://127.0.0.1:%d", px.Port)
	}
	discard := sc.Cfg.WARCDiscardStatus
	if discard == nil {
		discard = []int{429}
	}
	hubs, _ := c02Site(org, pipeRand(sc.Seed, "c02site", sc.Index), sc.NSeeds, discard, sc.StopAtResp > 0)
	if err := pr.applyConfig(hubs); err != nil {
		rep.violation("harness/config", err.Error(), nil)
		return 0
	}
	pr.perturb, pr.perturbSeed = sc.Perturb, vc.DeriveSeed(sc.Seed, "C02", "perturb", sc.Index)
	pr.installHooks(false)
	warcDir := filepath.Join(config.Get().JobPath, "warcs")
	ix := newWarcIndex()
	var ixMu sync.Mutex
	reportedProblems := 0
	isDiscarded := func(l originLog) bool {
		for _, d := range discard {
			if l.Status == d {
				return true
			}
		}
		return l.Status == 403 && l.Tag == "cf-challenge"
	}
	checkSeed := func(seedID string, nowSeq int64, when string) {
		ixMu.Lock()
		defer ixMu.Unlock()
		ix.scan(warcDir)
		for ; reportedProblems < len(ix.Problems); reportedProblems++ {
			p := ix.Problems[reportedProblems]
			rep.violation("malformed-warc-member", fmt.Sprintf("%s @%d: %s", p.File, p.Offset, p.What), nil)
		}
		// responses the crawler received for this seed: (url, status) of every client.Do that returned a response
		fetched := map[string]bool{}
		received := map[string]map[int]int{}
		for _, e := range pr.eventsCopy() {
			if e.Point == "arch.resp" && e.ID == seedID && e.Seq < nowSeq {
				fetched[e.URL] = true
				if received[e.URL] == nil {
					received[e.URL] = map[int]int{}
				}
				received[e.URL][e.N]++
			}
		}
		logs := org.snapshot()
		for u := range fetched {
			var want []originLog
			for _, l := range logs {
				if l.URL == u && l.Completed && l.EndSeq < nowSeq {
					want = append(want, l)
				}
			}
			var recs []warcRecord
			for _, r := range ix.Records {
				if r.TargetURI == u {
					recs = append(recs, r)
				}
			}
			nReq := 0
			for _, r := range recs {
				if r.Type == "request" {
					nReq++
				}
			}
			accepted := 0
			used := map[int]bool{}
			budget := map[int]int{}
			for st, n := range received[u] {
				budget[st] = n
			}
			for _, l := range want {
				// the origin may have served more requests than the crawler got answers for (a transport-level
				// retry, an attempt that ended in an error): only as many as the archiver received are required
				if budget[l.Status] == 0 {
					rep.event("origin_responses_not_received_by_archiver", 1)
					continue
				}
				budget[l.Status]--
				rep.event("responses_checked", 1)
				if isDiscarded(l) {
					rep.event("responses_rejected_by_policy", 1)
					rep.distinct(fmt.Sprintf("rejected/%d/%s", l.Status, l.Tag))
					for _, r := range recs {
						if (r.Type == "response" || r.Type == "revisit") && r.HTTPStatus == l.Status && (l.Status != 403 || l.Tag == "cf-challenge") {
							rep.violation(fmt.Sprintf("discarded-response-written/%d", l.Status), fmt.Sprintf("%s: a %d response (%s) that the discard policy rejects is in the WARC (%s @%d)", u, l.Status, l.Tag, r.File, r.Offset), nil)
						}
					}
					continue
				}
				accepted++
				dig := hexToB32(l.SHA1)
				found := -1
				for i, r := range recs {
					if used[i] || r.HTTPStatus != l.Status {
						continue
					}
					if r.Type == "response" && r.BodySHA1 == dig && r.BodyLen == l.Len {
						found = i
						break
					}
					if r.Type == "revisit" && r.PayloadDig == dig {
						// the referred response must exist
						ok := false
						for _, o := range ix.Records {
							if o.Type == "response" && o.BodySHA1 == dig && (r.RefersTo == "" || r.RefersTo == o.RecordID) {
								ok = true
								break
							}
						}
						if ok {
							found = i
							break
						}
					}
				}
				sizeClass := "small"
				switch {
				case l.Len == 0:
					sizeClass = "empty"
				case l.Len >= 2097151:
					sizeClass = "spool-threshold"
				case l.Len >= 2047 && l.Len <= 2049:
					sizeClass = "sniff-window"
				case l.Len >= 1023 && l.Len <= 1025:
					sizeClass = "dedupe-threshold"
				}
				if found < 0 {
					var have []string
					for _, r := range recs {
						have = append(have, fmt.Sprintf("%s status=%d len=%d sha1=%s payloadDigest=%s trunc=%s (%s@%d)", r.Type, r.HTTPStatus, r.BodyLen, r.BodySHA1, r.PayloadDig, r.Truncated, r.File, r.Offset))
					}
					sig := "response-not-in-warc-at-finish"
					for _, r := range recs {
						if (r.Type == "response") && r.HTTPStatus == l.Status {
							sig = "response-bytes-differ"
						}
					}
					rep.violation(sig+"/"+l.Tag, fmt.Sprintf("%s seed %s: origin sent status %d, %d bytes, sha1 %s (tag %s) for %s before the finish notification, but the WARC files hold for that URL: %v", when, seedID, l.Status, l.Len, dig, l.Tag, u, have),
						map[string]any{"cfg": sc.Cfg, "url": u, "origin": l})
				} else {
					used[found] = true
					rep.distinct(fmt.Sprintf("stored/%s/%d/%s/%s", recs[found].Type, l.Status, l.Tag, sizeClass))
				}
			}
			if nReq < accepted {
				rep.violation("request-record-missing", fmt.Sprintf("%s: %d accepted responses but %d request records", u, accepted, nReq), nil)
			}
		}
	}
	pr.itemHooks["fin.notify"] = func(item any, seq int64) {
		if seed, ok := item.(*models.Item); ok {
			rep.event("seeds_checked_at_notify", 1)
			checkSeed(seed.GetID(), seq, "at the finish notification of")
		}
	}
	if sc.StopAtResp > 0 {
		pr.triggers = append(pr.triggers, trigger{"arch.resp", sc.StopAtResp, "stop"})
	}
	pr.start(false)
	verdict := pr.waitQuiescent(6500*time.Millisecond, 12*time.Second, 150*time.Second)
	rep.Evaluations = 1
	rep.Extra["verdict"] = verdict
	if verdict != "quiescent" && !(sc.StopAtResp > 0 && verdict == "stopped") {
		rep.inconclusive("no-quiescence:" + verdict)
	}
	if sc.StopAtResp > 0 && verdict == "stopped" {
		rep.event("runs_stopped_mid_flight", 1)
	}
	done := make(chan struct{})
	go func() { pr.stop(); close(done) }()
	select {
	case <-done:
	case <-time.After(60 * time.Second):
		rep.Extra["stop_did_not_return"] = true
		return 0
	}
	// final pass over the closed files: every member must be a complete record
	ixMu.Lock()
	ix.scan(warcDir)
	for ; reportedProblems < len(ix.Problems); reportedProblems++ {
		p := ix.Problems[reportedProblems]
		rep.violation("malformed-warc-member", fmt.Sprintf("%s @%d: %s", p.File, p.Offset, p.What), nil)
	}
	for f, off := range ix.TrailingPartial {
		rep.violation("trailing-partial-member-after-stop", fmt.Sprintf("%s has an incomplete member at offset %d after a graceful stop", f, off), nil)
	}
	rep.event("warc_records", len(ix.Records))
	types := map[string]int{}
	for _, r := range ix.Records {
		types[r.Type]++
	}
	for t, n := range types {
		rep.event("warc_type:"+t, n)
	}
	ixMu.Unlock()
	rep.event("origin_requests", len(org.snapshot()))
	if sc.Index%6 == 0 {
		var l []string
		for _, r := range ix.Records[:min(8, len(ix.Records))] {
			l = append(l, fmt.Sprintf("%s %s status=%d len=%d %s", r.Type, r.TargetURI, r.HTTPStatus, r.BodyLen, r.BodySHA1))
		}
		rep.sample(map[string]any{"cfg": sc.Cfg, "first_records": l}, 1)
	}
	return 0
}

func c02(r *vc.Run) int {
	n := r.N(16, 200)
	var scs []c02Scenario
	for i := 0; i < n; i++ {
		rng := r.Rand("cfg", i)
		cfg := pipeConfig{
			Workers:             []int{1, 2, 4}[i%3],
			MaxConcurrentAssets: []int{1, 8}[(i/3)%2],
			MaxHops:             1,
			MaxRetry:            1 + rng.Intn(2),
			MaxRedirect:         20,
			WARCPoolSize:        []int{1, 3}[(i/6)%2],
			WARCOnDisk:          (i/12)%2 == 1,
			DisableLocalDedupe:  rng.Intn(2) == 0,
			WARCDiscardStatus:   [][]int{{429}, {429, 404}}[rng.Intn(2)],
		}
		if i%4 == 2 { // the mid-flight stop runs: many fetches in flight, one WARC writer, large bodies
			cfg.Workers, cfg.MaxConcurrentAssets, cfg.WARCPoolSize = 4, 8, 1
		}
		scs = append(scs, c02Scenario{Seed: r.Seed, Index: i, Cfg: cfg, NSeeds: 14 + rng.Intn(10), Perturb: i % 3, UseProxy: i%5 == 4, StopAtResp: map[bool]int{true: 5 + rng.Intn(40), false: 0}[i%4 == 2]})
	}
	m := newMerged()
	parallel(len(scs), 12, func(i int) {
		sc := scs[i]
		bin, label := os.Getenv("VZ_BIN"), fmt.Sprintf("run%d", i)
		if i%8 == 7 && os.Getenv("VZ_BIN_RACE") != "" {
			bin, label = os.Getenv("VZ_BIN_RACE"), label+"-race"
		}
		dir := filepath.Join(r.Scratch, fmt.Sprintf("c02-%d", i))
		res := runChild(bin, "pipe-c02", sc, dir, 6*time.Minute)
		absorb(r, m, res, label, sc, true)
		os.RemoveAll(dir)
	})
	for s, n := range m.Races {
		r.Note("race report x%d: %s", n, s)
	}
	stored := 0
	for k := range m.Distinct {
		if strings.HasPrefix(k, "stored/") || strings.HasPrefix(k, "rejected/") {
			stored++
		}
	}
	cov := map[string]any{
		"evaluations":         m.Events["responses_checked"],
		"distinct_nontrivial": stored,
		"rule":                "one evaluation = one response the origin completed for a URL fetched for a seed, judged at that seed's finish notification against the records visible in the job's WARC files (independent reader); distinct = distinct (record type, status, body kind, size class) of stored responses and (status, kind) of responses the discard policy rejects; configurations: workers{1,2,4} x max-concurrent-assets{1,8} x WARC pool{1,3} x on-disk x local dedupe x discard list",
		"samples":             m.Samples,
		"events":              m.Events,
		"pipeline_runs":       m.Children,
		"classes":             m.Distinct,
	}
	if cov["samples"] == nil {
		cov["samples"] = []any{}
	}
	return r.Finish("exploration", cov, []string{
		"synchronous WARC writing only (the statement's scope)",
		"payload identity = SHA-1 and length of the entity bytes the origin wrote (after content-encoding, before transfer-encoding) vs the payload recovered from the response record by net/http",
		"a revisit record counts if its payload digest equals and a response record with that payload exists",
	}, 10)
}
