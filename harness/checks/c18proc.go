package checks

import (
	"fmt"
	"net/http"
	"os"
	"path/filepath"
	"strings"
	"sync"
	"sync/atomic"
	"syscall"
	"time"

	"github.com/internetarchive/Zeno/internal/pkg/config"
	"github.com/internetarchive/Zeno/internal/pkg/controler"
	"github.com/internetarchive/Zeno/internal/pkg/controler/pause"
	"github.com/internetarchive/Zeno/internal/pkg/controler/watchers"
	"github.com/internetarchive/Zeno/internal/pkg/verifhook"
	"github.com/internetarchive/Zeno/internal/verif/vc"
	"github.com/internetarchive/Zeno/pkg/models"
)

// C18, process level: the real CheckDiskUsage on the scratch volume, the refusal to start, and the
// real WatchDiskSpace pausing / resuming real stage workers when the setting crosses the free space.

func init() {
	registerChild("c18-usage", c18UsageChild)
	registerChild("c18-start", c18StartChild)
	registerChild("c18-watch", c18WatchChild)
}

func statVolume(path string) (total, free uint64) {
	var st syscall.Statfs_t
	syscall.Statfs(path, &st)
	return st.Blocks * uint64(st.Bsize), st.Bavail * uint64(st.Bsize)
}

// c18UsageChild: CheckDiskUsage(path) against the exact reference on the volume's own numbers.
func c18UsageChild(scPath string) int {
	dir := os.Getenv("VZ_CHILD_DIR")
	rep := newReport()
	defer rep.write(dir)
	zenoConfig(dir, false, nil)
	c := config.Get()
	const margin = 256 << 20 // other processes write to the scratch volume while this runs
	for i := 0; i < 40; i++ {
		total, free := statVolume(dir)
		freeGiB := float64(free) / float64(gib)
		for _, m := range []float64{0, freeGiB - 2, freeGiB + 2, freeGiB * 0.5, freeGiB * 2, 1e-6, 1e7} {
			if m < 0 {
				continue
			}
			c.MinSpaceRequired = m
			got := watchers.CheckDiskUsage(dir) != nil
			// the reference on free-margin and free+margin must agree for the case to be decidable
			lo, hi := c18Ref(total, free-min(free, margin), m), c18Ref(total, free+margin, m)
			rep.Evaluations++
			if lo != hi {
				rep.event("too_close_to_threshold", 1)
				continue
			}
			rep.distinct(fmt.Sprintf("operator=%v/refuse=%v", m > 0, lo))
			if got != lo {
				rep.violation("check-disk-usage-differs", fmt.Sprintf("CheckDiskUsage on a volume with total=%d avail=%d and --min-space-required=%v says refuse=%v, the reference says %v", total, free, m, got, lo), nil)
			}
		}
	}
	return 0
}

// c18StartChild: controler.Start() with the setting from the scenario (the parent judges exit status and message).
func c18StartChild(scPath string) int {
	var sc struct {
		Min float64 `json:"min"`
	}
	readJSON(scPath, &sc)
	dir := os.Getenv("VZ_CHILD_DIR")
	pr := newPipeRun(dir, pipeConfig{Workers: 1, MaxHops: 0, MinSpaceRequired: sc.Min})
	if err := pr.applyConfig(nil); err != nil {
		return 2
	}
	controler.Start() // exits 1 itself when the guard refuses
	os.WriteFile(filepath.Join(dir, "started"), []byte("1"), 0o644)
	done := make(chan struct{})
	go func() { controler.Stop(); close(done) }()
	select {
	case <-done:
	case <-time.After(30 * time.Second):
	}
	return 0
}

// c18WatchChild: real WatchDiskSpace + real stage workers.
func c18WatchChild(scPath string) int {
	dir := os.Getenv("VZ_CHILD_DIR")
	rep := newReport()
	defer rep.write(dir)
	_, free := statVolume(dir)
	low := 1e-6
	high := float64(free)/float64(gib) + 64
	zenoConfig(dir, false, func(c *config.Config) {
		c.WorkersCount = 2
		c.MinSpaceRequired = low
	})
	var mu sync.Mutex
	acks, resumes, recvWhilePaused := 0, 0, 0
	paused := map[string]bool{}
	verifhook.SetHandler(func(point, id, url string, n int, item any) {
		mu.Lock()
		defer mu.Unlock()
		switch point {
		case "pause.ack":
			acks++
			paused[id] = true
		case "pause.resumed":
			resumes++
			paused[id] = false
		case "pre.recv", "post.recv":
			if paused[url] {
				recvWhilePaused++
			}
		}
	})
	h, err := startStages(true)
	if err != nil {
		rep.violation("harness/start", err.Error(), nil)
		return 0
	}
	for i := 0; i < 2000 && pause.VerifSubscribers() < 4; i++ {
		time.Sleep(time.Millisecond)
	}
	go watchers.WatchDiskSpace(dir, 40*time.Millisecond)
	feed := func(n int) {
		for i := 0; i < n; i++ {
			seed, _ := newSeed(fmt.Sprintf("w%d-%d", time.Now().UnixNano(), i), fmt.Sprintf("https://w.example/p%d-%d.html", time.Now().UnixNano(), i), "", 0)
			go h.crawl(seed, func(it *models.Item, wire string) *fakeResp {
				return &fakeResp{Status: 200, Header: http.Header{"Content-Type": {"text/plain"}}, Body: []byte("x")}
			}, 3)
		}
	}
	waitFor := func(cond func() bool) bool {
		for i := 0; i < 400; i++ { // 400 x 10 ms = 100 watcher ticks
			if cond() {
				return true
			}
			time.Sleep(10 * time.Millisecond)
		}
		return cond()
	}
	for round := 0; round < 3; round++ {
		rep.Evaluations++
		feed(3)
		if !waitFor(func() bool { return !pause.IsPaused() }) {
			rep.violation("watcher/paused-with-enough-space", "the disk watcher keeps the pipeline paused although free space is far above the setting", nil)
			return 0
		}
		// the one word-sized store into live configuration (plain build only; see DESIGN)
		config.Get().MinSpaceRequired = high
		if !waitFor(func() bool { mu.Lock(); defer mu.Unlock(); return pause.IsPaused() && acks >= 4*(round+1) }) {
			mu.Lock()
			a := acks
			mu.Unlock()
			rep.violation("watcher/not-paused-below-threshold", fmt.Sprintf("free space is below --min-space-required=%.1f GiB for 100 watcher ticks but the pipeline is not paused (paused=%v, acknowledgements=%d of %d)", high, pause.IsPaused(), a, 4*(round+1)), nil)
			return 0
		}
		feed(3) // work offered while paused must wait
		time.Sleep(150 * time.Millisecond)
		config.Get().MinSpaceRequired = low
		if !waitFor(func() bool { mu.Lock(); defer mu.Unlock(); return !pause.IsPaused() && resumes >= 4*(round+1) }) {
			rep.violation("watcher/not-resumed-above-threshold", "free space is above the setting again for 100 watcher ticks but the workers were not resumed", nil)
			return 0
		}
		rep.distinct(fmt.Sprintf("pause-resume-cycle-%d", round))
	}
	mu.Lock()
	rep.event("pause_acks", acks)
	rep.event("resumes", resumes)
	if recvWhilePaused > 0 {
		rep.violation("watcher/work-while-paused", fmt.Sprintf("%d seeds were taken by workers that had acknowledged the low-disk pause", recvWhilePaused), nil)
	}
	mu.Unlock()
	// A worker that is in the middle of a fetch acknowledges a pause late. While the watchdog's resume is
	// still waiting for it, the disk runs low again: once the worker has caught up, the pipeline must end
	// up paused (free space is below the threshold and stays there).
	{
		mu.Lock()
		acksBefore := acks
		mu.Unlock()
		slow := pause.Subscribe()
		release := make(chan struct{})
		slowDone := make(chan struct{})
		var slowResumed atomic.Bool
		go func() {
			defer close(slowDone)
			first := true
			for range slow.PauseCh {
				if first {
					<-release // the fetch ends only now
				}
				slow.ResumeCh <- struct{}{}
				if first {
					first = false
					slowResumed.Store(true)
				}
			}
		}()
		config.Get().MinSpaceRequired = high
		if waitFor(func() bool { mu.Lock(); defer mu.Unlock(); return pause.IsPaused() && acks >= acksBefore+4 }) {
			rep.Evaluations++
			config.Get().MinSpaceRequired = low
			time.Sleep(500 * time.Millisecond) // > 10 watcher ticks: the resume has started and waits for the slow worker
			config.Get().MinSpaceRequired = high
			time.Sleep(500 * time.Millisecond) // low again for > 10 ticks while that resume is pending
			close(release)
			// the pending resume completes first (the slow worker is released by it) ...
			if !waitFor(func() bool { return slowResumed.Load() }) {
				rep.inconclusive("slow-worker-never-resumed")
			}
			time.Sleep(120 * time.Millisecond) // ... and then the watchdog has to notice that the disk is still low
			if !waitFor(func() bool { return pause.IsPaused() }) {
				rep.violation("watcher/not-paused-below-threshold/low-again-while-resume-pending", fmt.Sprintf("free space is below --min-space-required=%.1f GiB (it dropped again while the watchdog's resume was waiting for a slow worker); 100 watcher ticks after that worker caught up the pipeline is still running", high), nil)
				watchers.StopDiskWatcher()
				return 0
			}
			rep.distinct("low-again-while-resume-pending/paused")
		} else {
			rep.inconclusive("watcher-did-not-pause-for-the-slow-worker-phase")
		}
		config.Get().MinSpaceRequired = low
		waitFor(func() bool { return !pause.IsPaused() })
		mu.Lock()
		acksAfterSlow := acks
		mu.Unlock()
		_ = acksAfterSlow
		pause.Unsubscribe(slow)
	}
	var opt struct {
		StopWhileLow bool `json:"stop_while_low"`
	}
	readJSON(scPath, &opt)
	if !opt.StopWhileLow {
		watchers.StopDiskWatcher()
		return 0
	}
	// C14 / C03: shutdown requested while the disk watchdog holds the pipeline paused and the disk is
	// still low. The stop sequence begins with StopDiskWatcher(): it must return whatever the disk does.
	mu.Lock()
	acksBeforeStop := acks
	mu.Unlock()
	config.Get().MinSpaceRequired = high
	if !waitFor(func() bool { mu.Lock(); defer mu.Unlock(); return pause.IsPaused() && acks >= acksBeforeStop+4 }) {
		rep.inconclusive("watcher-did-not-pause-for-the-stop-phase")
		watchers.StopDiskWatcher()
		return 0
	}
	rep.Evaluations++
	stopped := make(chan struct{})
	go func() { watchers.StopDiskWatcher(); close(stopped) }()
	select {
	case <-stopped:
		rep.distinct("stop-while-paused-by-low-disk/returned")
	case <-time.After(20 * time.Second): // 500 watcher ticks
		// structural confirmation: does it return once the disk has space again?
		config.Get().MinSpaceRequired = low
		select {
		case <-stopped:
			rep.violation("watcher/stop-waits-for-disk-space", "StopDiskWatcher() did not return for 500 watcher ticks while free space stayed below the setting, and returned as soon as space was available again: shutdown depends on the disk", map[string]any{"parked": stuckFrames(goroutineDump())})
		case <-time.After(20 * time.Second):
			rep.violation("watcher/stop-never-returns", "StopDiskWatcher() did not return, neither while the disk was low nor after space became available", map[string]any{"parked": stuckFrames(goroutineDump())})
		}
	}
	done := make(chan struct{})
	go func() { h.stop(); close(done) }()
	select {
	case <-done:
	case <-time.After(20 * time.Second):
		rep.violation("watcher/stages-do-not-stop-while-paused-by-low-disk", "the stages did not stop within 20 s after the watcher was stopped while it held the pipeline paused", map[string]any{"parked": stuckFrames(goroutineDump())})
	}
	return 0
}

// c18Process runs the three process-level parts; returns counters for the evidence.
func c18Process(r *vc.Run) map[string]any {
	out := map[string]any{}
	m := newMerged()
	res := runChild(os.Getenv("VZ_BIN"), "c18-usage", map[string]any{}, filepath.Join(r.Scratch, "c18-usage"), 2*time.Minute)
	absorb(r, m, res, "CheckDiskUsage", nil, true)
	out["check_disk_usage_cases"] = m.Evaluations
	out["check_disk_usage_classes"] = m.Distinct
	// refusal to start
	_, free := statVolume(r.Scratch)
	for _, c := range []struct {
		min    float64
		refuse bool
	}{{float64(free)/float64(gib) + 64, true}, {1e-6, false}} {
		dir := filepath.Join(r.Scratch, fmt.Sprintf("c18-start-%v", c.refuse))
		res := runChild(os.Getenv("VZ_BIN"), "c18-start", map[string]any{"min": c.min}, dir, 2*time.Minute)
		_, err := os.Stat(filepath.Join(dir, "started"))
		started := err == nil
		switch {
		case c.refuse && (started || res.Exit != 1 || !strings.Contains(res.Stdout, "can't start Zeno")):
			r.Violation("start-not-refused", fmt.Sprintf("with --min-space-required=%.1f GiB above the free space the crawler did not refuse to start (started=%v exit=%d stdout=%q)", c.min, started, res.Exit, truncate(res.Stdout, 200)), nil)
		case !c.refuse && !started:
			r.Violation("start-refused-with-enough-space", fmt.Sprintf("the crawler refused to start with ample free space (exit=%d stdout=%q stderr=%q)", res.Exit, truncate(res.Stdout, 200), tail(res.Stderr, 300)), nil)
		}
	}
	out["start_runs"] = 2
	m2 := newMerged()
	res = runChild(os.Getenv("VZ_BIN"), "c18-watch", map[string]any{}, filepath.Join(r.Scratch, "c18-watch"), 3*time.Minute)
	absorb(r, m2, res, "WatchDiskSpace", nil, true)
	out["watcher_cycles"] = len(m2.Distinct)
	out["watcher_events"] = m2.Events
	return out
}
