package checks

import (
	"fmt"
	"sort"
	"strings"

	"github.com/internetarchive/Zeno/internal/verif/vc"
	"github.com/internetarchive/Zeno/pkg/models"
)

// C11 — the item tree stays well-formed and completion is detected exactly.
//
// The real pkg/models code is driven through pipeline-shaped histories: the sequence of model
// operations that preprocess(), archive(), postprocess() and the finisher perform, with every
// data-dependent decision (URL rejected, seen, fetch failed, redirect, k assets with which URLs)
// turned into a choice point. Part A enumerates all choice vectors in a small scope (stateless
// systematic enumeration: re-execute from the root for every vector), part B samples random
// vectors on larger scopes, part C enumerates all small trees x status assignments.

func init() { register("C11", c11) }

type c11Violation struct{ sig, what string }

type c11Exec struct {
	choose   func(n int) int
	enum     bool     // enumeration mode: binary outcomes have arity 2 (no weighting)
	urls     []string // URL pool for children
	maxNodes int
	maxKids  int
	maxPass  int
	nextID   int
	trace    []string
	viol     *c11Violation
	stats    *c11Stats
}

type c11Stats struct {
	dedupeRemovals, dedupeCalls, dedupeSpellingPairs, completeChecks, completeTrue, consistencyChecks, maxNodesSeen, maxDepthSeen int
	finalShapes                                                                                              *vc.Distinct
}

func c11URL(raw string) *models.URL {
	u := &models.URL{Raw: raw}
	if err := u.Parse(); err != nil {
		panic(err)
	}
	return u
}

func (e *c11Exec) fail(sig, format string, a ...any) {
	if e.viol == nil {
		e.viol = &c11Violation{sig, fmt.Sprintf(format, a...)}
	}
}

// unlikely is a binary outcome taken with probability 1/w in random mode, and a plain 2-way choice in enumeration mode.
func (e *c11Exec) unlikely(w int) bool {
	if e.enum {
		return e.choose(2) == 1
	}
	return e.choose(w) == 0
}

func (e *c11Exec) logf(format string, a ...any) { e.trace = append(e.trace, fmt.Sprintf(format, a...)) }

func isPending(s models.ItemState) bool {
	return s == models.ItemFresh || s == models.ItemPreProcessed || s == models.ItemArchived
}

// structure checks unique ids and symmetric parent/child links with an own walker; returns node count, max depth.
func c11Structure(seed *models.Item) (n, depth int, err error) {
	ids := map[string]bool{}
	var walk func(it *models.Item, d int) error
	walk = func(it *models.Item, d int) error {
		n++
		if d > depth {
			depth = d
		}
		if ids[it.GetID()] {
			return fmt.Errorf("duplicate id %s", it.GetID())
		}
		ids[it.GetID()] = true
		for _, c := range it.GetChildren() {
			if c.GetParent() != it {
				return fmt.Errorf("child %s of %s has parent %v", c.GetID(), it.GetID(), c.GetParent())
			}
			if err := walk(c, d+1); err != nil {
				return err
			}
		}
		return nil
	}
	if seed.GetParent() != nil {
		return 0, 0, fmt.Errorf("seed has a parent")
	}
	err = walk(seed, 0)
	return
}

func c11Draw(seed *models.Item) string {
	var b strings.Builder
	var walk func(it *models.Item, d int)
	walk = func(it *models.Item, d int) {
		fmt.Fprintf(&b, "%s%s(%s %s)\n", strings.Repeat("  ", d), it.GetID(), strings.TrimPrefix(it.GetURL().String(), "http://h.example"), it.GetStatus())
		for _, c := range it.GetChildren() {
			walk(c, d+1)
		}
	}
	walk(seed, 0)
	return b.String()
}

func c11Count(seed *models.Item) (n int) { seed.Traverse(func(*models.Item) { n++ }); return }

// stageReceive is what every stage does on receipt: the model's own consistency check plus our structural walker.
func (e *c11Exec) stageReceive(stage string, seed *models.Item) bool {
	e.stats.consistencyChecks++
	if err := seed.CheckConsistency(); err != nil {
		e.fail("consistency/"+stage, "CheckConsistency at %s: %v\n%s", stage, err, c11Draw(seed))
		return false
	}
	n, d, err := c11Structure(seed)
	if err != nil {
		e.fail("structure/"+stage, "at %s: %v\n%s", stage, err, c11Draw(seed))
		return false
	}
	if n > e.stats.maxNodesSeen {
		e.stats.maxNodesSeen = n
	}
	if d > e.stats.maxDepthSeen {
		e.stats.maxDepthSeen = d
	}
	return true
}

func nonSeedURLs(seed *models.Item) map[string]int {
	m := map[string]int{}
	seed.Traverse(func(it *models.Item) {
		if it.GetParent() != nil {
			m[it.GetURL().String()]++
		}
	})
	return m
}

// c11Spellings: URLs a page can spell in several ways that the crawler's canonical form (URL.String) identifies;
// "one node per URL" is judged on the canonical form, whatever the spelling found in the document.
var c11Spellings = []string{
	"http://h.example/v?k=a%20b", "http://h.example/v?k=a+b",
	"http://h.example/w?x=1&&y=2", "http://h.example/w?x=1&y=2",
	"http://h.example/z?q=%41", "http://h.example/z?q=A",
	"http://h.example/t?", "http://h.example/t",
}

// c11HasSpellingPair reports whether two non-seed nodes share a canonical URL under different raw spellings.
func c11HasSpellingPair(seed *models.Item) (found bool) {
	raws := map[string]string{}
	seed.Traverse(func(it *models.Item) {
		if it.GetParent() == nil {
			return
		}
		k := it.GetURL().String()
		if r, ok := raws[k]; ok && r != it.GetURL().Raw {
			found = true
		}
		raws[k] = it.GetURL().Raw
	})
	return
}

// run executes one pipeline-shaped history; returns false on violation.
func (e *c11Exec) run() {
	seed := models.NewItem("s", c11URL("http://h.example/seed"), "")
	e.nextID = 0
	for pass := 0; pass < e.maxPass; pass++ {
		// ---- preprocessor ----
		if !e.stageReceive("preprocessor", seed) {
			return
		}
		if st := seed.GetStatus(); st == models.ItemFailed || st == models.ItemCompleted {
			e.fail("stage-panic/preprocessor-seed-status", "preprocessor would panic: seed status %s\n%s", st, c11Draw(seed))
			return
		}
		done := e.preprocess(seed)
		if e.viol != nil {
			return
		}
		// ---- archiver ----
		if !e.stageReceive("archiver", seed) {
			return
		}
		if !done {
			items, _ := seed.GetNodesAtLevel(seed.GetMaxDepth())
			for _, it := range items {
				if it.GetStatus() != models.ItemPreProcessed {
					continue
				}
				if e.unlikely(3) {
					it.SetStatus(models.ItemFailed)
					e.logf("arch %s failed", it.GetID())
				} else {
					it.SetStatus(models.ItemArchived)
				}
			}
		}
		// ---- postprocessor ----
		if !e.stageReceive("postprocessor", seed) {
			return
		}
		if st := seed.GetStatus(); st == models.ItemArchived || st == models.ItemGotRedirected || st == models.ItemGotChildren {
			items, _ := seed.GetNodesAtLevel(seed.GetMaxDepth())
			for _, it := range items {
				if it.GetStatus() != models.ItemArchived {
					continue
				}
				e.postprocessItem(seed, it)
				if e.viol != nil {
					return
				}
			}
		}
		// ---- finisher ----
		if !e.stageReceive("finisher", seed) {
			return
		}
		pendingBefore := 0
		seed.Traverse(func(it *models.Item) {
			if isPending(it.GetStatus()) {
				pendingBefore++
			}
		})
		complete := seed.CompleteAndCheck()
		e.stats.completeChecks++
		if complete != (pendingBefore == 0) {
			sig := "complete-with-pending"
			if !complete {
				sig = "incomplete-without-pending"
			}
			e.fail(sig, "CompleteAndCheck()=%v but %d node(s) await fetching/post-processing\n%s\ntrace: %v", complete, pendingBefore, c11Draw(seed), e.trace)
			return
		}
		if _, _, err := c11Structure(seed); err != nil {
			e.fail("structure/after-complete", "%v", err)
			return
		}
		if complete {
			e.stats.completeTrue++
			e.stats.finalShapes.Add(c11Shape(seed))
			return
		}
		e.logf("feedback")
	}
}

func c11Shape(seed *models.Item) string {
	var b strings.Builder
	var walk func(it *models.Item)
	walk = func(it *models.Item) {
		fmt.Fprintf(&b, "%d", int(it.GetStatus()))
		cs := it.GetChildren()
		if len(cs) > 0 {
			b.WriteByte('(')
			for _, c := range cs {
				walk(c)
			}
			b.WriteByte(')')
		}
	}
	walk(seed)
	return b.String()
}

// preprocess mirrors the model operations of preprocessor.preprocess(); returns true if the seed was finished here.
func (e *c11Exec) preprocess(seed *models.Item) bool {
	depth := seed.GetMaxDepth()
	items, _ := seed.GetNodesAtLevel(depth)
	var rejected []*models.Item
	for _, it := range items {
		if it.GetStatus() != models.ItemFresh {
			e.fail("stage-panic/non-fresh-at-max-depth", "preprocessor would panic: item %s at max depth has status %s\n%s", it.GetID(), it.GetStatus(), c11Draw(seed))
			return true
		}
		if it.GetParent() == nil {
			if e.unlikely(4) {
				if e.choose(2) == 0 {
					it.SetStatus(models.ItemFailed)
					e.logf("pre seed invalid")
				} else {
					it.SetStatus(models.ItemCompleted)
					e.logf("pre seed excluded")
				}
				return true
			}
			continue
		}
		if e.unlikely(4) {
			rejected = append(rejected, it)
			e.logf("pre remove %s", it.GetID())
		}
	}
	// rejected children are dropped while walking each parent's children (GetChildren hands out a snapshot,
	// so removing during the walk is legitimate); afterwards none of them may still be in the tree
	if len(rejected) > 0 {
		rej := map[*models.Item]bool{}
		var parents []*models.Item
		seenParent := map[*models.Item]bool{}
		for _, it := range rejected {
			rej[it] = true
			if p := it.GetParent(); !seenParent[p] {
				seenParent[p] = true
				parents = append(parents, p)
			}
		}
		for _, p := range parents {
			for _, c := range p.GetChildren() {
				if rej[c] {
					p.RemoveChild(c)
				}
			}
		}
		left := ""
		seed.Traverse(func(it *models.Item) {
			if rej[it] {
				left += " " + it.GetID()
			}
		})
		if left != "" {
			e.fail("removed-child-still-in-tree", "children%s were removed while walking GetChildren() of their parent and are still in the tree\n%s\ntrace: %v", left, c11Draw(seed), e.trace)
			return true
		}
	}
	before := nonSeedURLs(seed)
	if c11HasSpellingPair(seed) {
		e.stats.dedupeSpellingPairs++
	}
	nBefore := c11Count(seed)
	drawBefore := ""
	drawBefore = c11Draw(seed)
	seed.DedupeItems()
	e.stats.dedupeCalls++
	e.stats.dedupeRemovals += nBefore - c11Count(seed)
	after := nonSeedURLs(seed)
	for u, n := range after {
		if n > 1 {
			e.fail("dedupe-left-duplicates", "after DedupeItems %d non-seed nodes share %s\nbefore:\n%safter:\n%s", n, u, drawBefore, c11Draw(seed))
			return true
		}
	}
	for u := range before {
		if after[u] == 0 {
			e.fail("dedupe-discarded-url", "DedupeItems discarded URL %s altogether\nbefore:\n%safter:\n%s\ntrace: %v", u, drawBefore, c11Draw(seed), e.trace)
			return true
		}
	}
	if _, _, err := c11Structure(seed); err != nil {
		e.fail("structure/after-dedupe", "%v", err)
		return true
	}
	items, _ = seed.GetNodesAtLevel(depth)
	if len(items) == 0 {
		seed.SetStatus(models.ItemCompleted)
		e.logf("pre nothing left after dedupe")
		return true
	}
	// seencheck
	fresh := 0
	for _, it := range items {
		if it.GetStatus() != models.ItemFresh {
			continue
		}
		if e.unlikely(4) {
			it.SetStatus(models.ItemSeen)
			e.logf("pre seen %s", it.GetID())
		} else {
			fresh++
		}
	}
	if fresh == 0 {
		seed.SetStatus(models.ItemCompleted)
		e.logf("pre nothing left after seencheck")
		return true
	}
	for _, it := range items {
		if it.GetStatus() == models.ItemFresh {
			it.SetStatus(models.ItemPreProcessed)
		}
	}
	return false
}

// postprocessItem mirrors the model operations of postprocessor.postprocessItem().
func (e *c11Exec) postprocessItem(seed, it *models.Item) {
	room := e.maxNodes - c11Count(seed)
	opts := 1 // complete
	if room > 0 {
		opts = 3 // complete | redirect | children
	}
	switch e.choose(opts) {
	case 0:
		it.SetStatus(models.ItemCompleted)
	case 1:
		c := e.newChild()
		if err := it.AddChild(c, models.ItemGotRedirected); err != nil {
			e.fail("addchild-error", "AddChild(redirect): %v", err)
		}
		e.logf("post %s redirect -> %s(%s)", it.GetID(), c.GetID(), c.GetURL().Raw)
	case 2:
		if it.GetDepthWithoutRedirections() > 2 {
			it.SetStatus(models.ItemCompleted)
			return
		}
		k := 1 + e.choose(min(e.maxKids, room))
		for i := 0; i < k; i++ {
			c := e.newChild()
			if err := it.AddChild(c, models.ItemGotChildren); err != nil {
				e.fail("addchild-error", "AddChild(asset): %v", err)
			}
			e.logf("post %s asset %s(%s)", it.GetID(), c.GetID(), c.GetURL().Raw)
		}
	}
}

func (e *c11Exec) newChild() *models.Item {
	e.nextID++
	u := e.urls[e.choose(len(e.urls))]
	return models.NewItem(fmt.Sprintf("n%d", e.nextID), c11URL(u), "")
}

// c11Enumerate runs every choice vector (odometer order); stops after limit executions (0 = none).
func c11Enumerate(r *vc.Run, mk func() *c11Exec, limit int, onViolation func(v *c11Violation, vec []int)) (execs int, complete bool) {
	vec := []int{}
	for {
		var arity []int
		pos := 0
		e := mk()
		e.choose = func(n int) int {
			if n <= 1 {
				return 0
			}
			var c int
			if pos < len(vec) {
				c = vec[pos]
				if c >= n {
					c = n - 1
				}
			}
			if pos >= len(arity) {
				arity = append(arity, n)
			}
			pos++
			return c
		}
		e.run()
		execs++
		if e.viol != nil {
			onViolation(e.viol, append([]int(nil), vec...))
		}
		// next vector
		cur := make([]int, len(arity))
		copy(cur, vec)
		i := len(arity) - 1
		for i >= 0 {
			if cur[i]+1 < arity[i] {
				cur[i]++
				cur = cur[:i+1]
				break
			}
			i--
		}
		if i < 0 {
			return execs, true
		}
		vec = cur
		if limit > 0 && execs >= limit {
			return execs, false
		}
	}
}

func c11(r *vc.Run) int {
	stats := &c11Stats{finalShapes: vc.NewDistinct()}
	samples := vc.NewSamples(6)
	report := func(v *c11Violation, witness any) {
		r.Violation(v.sig, v.what, witness)
	}
	pool := []string{"http://h.example/a.xml", "http://h.example/m.json", "http://h.example/y.png"}

	// Part A: exhaustive small scope
	scopeA := map[string]int{"max_nodes": r.N(6, 7), "max_children_per_item": 2, "max_passes": r.N(4, 5), "child_urls": 3}
	mkA := func() *c11Exec {
		return &c11Exec{enum: true, urls: pool[:scopeA["child_urls"]], maxNodes: scopeA["max_nodes"], maxKids: scopeA["max_children_per_item"], maxPass: scopeA["max_passes"], stats: stats}
	}
	execsA, exhaustive := c11Enumerate(r, mkA, r.N(3000000, 60000000), func(v *c11Violation, vec []int) {
		report(v, map[string]any{"part": "A-exhaustive", "scope": scopeA, "choice_vector": vec})
	})
	shapesA := stats.finalShapes.Len()

	// Part B: random histories on larger scopes
	nB := r.N(20000, 1000000)
	bigPool := []string{}
	for i := 0; i < 12; i++ {
		bigPool = append(bigPool, fmt.Sprintf("http://h.example/u%d", i))
	}
	for i := 0; i < nB; i++ {
		rng := r.Rand("B", i)
		e := &c11Exec{urls: bigPool[:2+rng.Intn(10)], maxNodes: 8 + rng.Intn(190), maxKids: 1 + rng.Intn(8), maxPass: 8, stats: stats}
		if i%2 == 1 { // every other history also draws from URLs with several spellings of one canonical form
			vr := r.Rand("Bspell", i)
			k := 2 * (1 + vr.Intn(len(c11Spellings)/2))
			e.urls = append(append([]string(nil), e.urls[:1+vr.Intn(len(e.urls))]...), c11Spellings[:k]...)
		}
		e.choose = func(n int) int {
			if n <= 1 {
				return 0
			}
			return rng.Intn(n)
		}
		e.run()
		if e.viol != nil {
			report(e.viol, map[string]any{"part": "B-random", "case": i, "trace": e.trace})
		}
		if i < 3 {
			samples.Add(map[string]any{"part": "B", "trace": e.trace})
		}
	}

	// Part C: all trees with <= maxN nodes x all status assignments
	treesC, assignmentsC, checkedC := c11PartC(r, r.N(4, 5))
	// Part D: de-duplication on all small trees x status assignments x URL assignments of the leaves
	treesD, casesD, dupCasesD := c11PartD(r, 4, r.Thorough())

	cov := map[string]any{
		"evaluations":         execsA + nB + assignmentsC + casesD,
		"distinct_nontrivial": stats.finalShapes.Len() + checkedC + dupCasesD,
		"rule":                "A: every choice vector of the pipeline-shaped history generator within the scope (stateless enumeration on the real model); B: seeded random vectors on scopes up to 200 nodes; C: every rooted ordered tree x every status assignment. Non-trivial = distinct final (shape,status) trees reached by A/B plus C-assignments that pass CheckConsistency and the stage invariant (so the completion oracle applied)",
		"samples":             samples.List(),
		"exhaustive":          exhaustive,
		"part_A":              map[string]any{"scope": scopeA, "executions": execsA, "exhaustive": exhaustive, "distinct_final_trees": shapesA},
		"part_B":              map[string]any{"histories": nB, "dedupe_calls_with_two_spellings_of_one_url": stats.dedupeSpellingPairs, "spellings": c11Spellings},
		"part_C":              map[string]any{"trees": treesC, "assignments": assignmentsC, "completion_oracle_applied": checkedC},
		"part_D":              map[string]any{"trees": treesD, "cases": casesD, "cases_with_duplicates": dupCasesD, "rule": "every rooted ordered tree of up to 4 nodes x every status assignment that passes CheckConsistency x every assignment of the leaf URLs from {X, Y} (+ a third letter in the thorough tier); inner nodes have URLs of their own; after DedupeItems: structure well-formed, exactly one non-seed node per URL, no URL lost"},
		"dedupe_calls":        stats.dedupeCalls,
		"dedupe_removed":      stats.dedupeRemovals,
		"consistency_checks":  stats.consistencyChecks,
		"completion_checks":   stats.completeChecks,
		"completion_true":     stats.completeTrue,
		"max_nodes_seen":      stats.maxNodesSeen,
		"max_depth_seen":      stats.maxDepthSeen,
	}
	samples.Add(map[string]any{"part": "A", "final_tree_shapes_sample": firstKeys(stats.finalShapes.Counts(), 5)})
	cov["samples"] = samples.List()
	return r.Finish("exploration", cov, []string{
		"histories are pipeline-shaped: the model operations and their order are those of preprocess/archive/postprocess/finisher in the pinned code; data-dependent outcomes are choice points",
		"part D gives duplicate URLs to leaves only: two expanded copies of one URL cannot arise in the pipeline (a duplicate is removed while it is still fresh)",
		"part C asserts completion only on assignments where pending nodes sit at the deepest level and terminal nodes have no pending descendants (the states the stages can produce)",
	}, 50)
}

func firstKeys(m map[string]int, n int) []string {
	k := []string{}
	for s := range m {
		k = append(k, s)
	}
	sort.Strings(k)
	if len(k) > n {
		k = k[:n]
	}
	return k
}

// c11PartC enumerates all rooted ordered trees up to maxN nodes (as parent vectors) x all status assignments.
func c11PartC(r *vc.Run, maxN int) (trees, assignments, checked int) {
	statuses := []models.ItemState{models.ItemFresh, models.ItemPreProcessed, models.ItemArchived, models.ItemFailed, models.ItemCompleted, models.ItemSeen, models.ItemGotRedirected, models.ItemGotChildren}
	for n := 1; n <= maxN; n++ {
		// parent vectors: parent[i] in [0, i) for i>=1, nodes in creation order (ordered trees, with repeats of shape; fine)
		parent := make([]int, n)
		var recParents func(i int)
		recParents = func(i int) {
			if i == n {
				trees++
				assign := make([]int, n)
				var recAssign func(j int)
				recAssign = func(j int) {
					if j == n {
						assignments++
						checked += c11CheckAssignment(r, parent, assign, statuses)
						return
					}
					for s := range statuses {
						assign[j] = s
						recAssign(j + 1)
					}
				}
				recAssign(0)
				return
			}
			for p := 0; p < i; p++ {
				parent[i] = p
				recParents(i + 1)
			}
		}
		recParents(1)
	}
	return
}

func c11CheckAssignment(r *vc.Run, parent, assign []int, statuses []models.ItemState) int {
	n := len(parent)
	nodes := make([]*models.Item, n)
	nodes[0] = models.NewItem("n0", c11URL("http://h.example/seed"), "")
	for i := 1; i < n; i++ {
		nodes[i] = models.NewItem(fmt.Sprintf("n%d", i), c11URL(fmt.Sprintf("http://h.example/u%d", i)), "")
		from := models.ItemGotChildren
		if statuses[assign[parent[i]]] == models.ItemGotRedirected {
			from = models.ItemGotRedirected
		}
		if err := nodes[parent[i]].AddChild(nodes[i], from); err != nil {
			return 0
		}
	}
	for i := range nodes {
		nodes[i].SetStatus(statuses[assign[i]])
	}
	seed := nodes[0]
	if seed.CheckConsistency() != nil {
		return 0
	}
	if _, _, err := c11Structure(seed); err != nil {
		r.Violation("structure/partC", err.Error(), map[string]any{"parent": parent, "assign": assign})
		return 0
	}
	// stage invariant
	maxDepth := int(seed.GetMaxDepth())
	depth := make([]int, n)
	pendingBelow := make([]bool, n)
	pending := 0
	ok := true
	for i := 1; i < n; i++ {
		depth[i] = depth[parent[i]] + 1
	}
	for i := n - 1; i >= 0; i-- {
		st := statuses[assign[i]]
		if isPending(st) {
			pending++
			if depth[i] != maxDepth {
				ok = false
			}
		}
		if isPending(st) || pendingBelow[i] {
			if i > 0 {
				pendingBelow[parent[i]] = true
			}
		}
		if pendingBelow[i] && st != models.ItemGotChildren && st != models.ItemGotRedirected {
			ok = false
		}
	}
	if !ok {
		return 0
	}
	got := seed.CompleteAndCheck()
	if got != (pending == 0) {
		r.Violation("partC/completion-mismatch", fmt.Sprintf("CompleteAndCheck()=%v with %d pending node(s)\n%s", got, pending, c11Draw(seed)), map[string]any{"parent": parent, "assign": assign})
	}
	if _, _, err := c11Structure(seed); err != nil {
		r.Violation("structure/partC-after", err.Error(), map[string]any{"parent": parent, "assign": assign})
	}
	return 1
}

// c11PartD: DedupeItems on every small tree x status assignment x leaf-URL assignment.
func c11PartD(r *vc.Run, maxN int, threeLetters bool) (trees, cases, dupCases int) {
	statuses := []models.ItemState{models.ItemFresh, models.ItemPreProcessed, models.ItemArchived, models.ItemFailed, models.ItemCompleted, models.ItemSeen, models.ItemGotRedirected, models.ItemGotChildren}
	letters := []string{"X", "Y"}
	if threeLetters {
		letters = append(letters, "Z")
	}
	reported := 0
	for n := 3; n <= maxN; n++ {
		parent := make([]int, n)
		var recParents func(i int)
		recParents = func(i int) {
			if i < n {
				for p := 0; p < i; p++ {
					parent[i] = p
					recParents(i + 1)
				}
				return
			}
			trees++
			hasChild := make([]bool, n)
			for k := 1; k < n; k++ {
				hasChild[parent[k]] = true
			}
			var leaves []int
			for k := 1; k < n; k++ {
				if !hasChild[k] {
					leaves = append(leaves, k)
				}
			}
			assign := make([]int, n)
			urlOf := make([]int, len(leaves))
			var recURL func(j int)
			check := func() {
				cases++
				nodes := make([]*models.Item, n)
				nodes[0] = models.NewItem("n0", c11URL("http://h.example/seed"), "")
				li := 0
				for k := 1; k < n; k++ {
					u := fmt.Sprintf("http://h.example/inner%d", k)
					if !hasChild[k] {
						u = "http://h.example/" + letters[urlOf[li]]
						li++
					}
					nodes[k] = models.NewItem(fmt.Sprintf("n%d", k), c11URL(u), "")
					from := models.ItemGotChildren
					if statuses[assign[parent[k]]] == models.ItemGotRedirected {
						from = models.ItemGotRedirected
					}
					if nodes[parent[k]].AddChild(nodes[k], from) != nil {
						return
					}
				}
				for k := range nodes {
					nodes[k].SetStatus(statuses[assign[k]])
				}
				seed := nodes[0]
				if seed.CheckConsistency() != nil {
					return
				}
				before := nonSeedURLs(seed)
				dup := false
				for _, c := range before {
					if c > 1 {
						dup = true
					}
				}
				drawn := ""
				if dup {
					dupCases++
					drawn = c11Draw(seed)
				}
				if err := seed.DedupeItems(); err != nil {
					return
				}
				after := nonSeedURLs(seed)
				fail := func(sig, what string) {
					if reported < 40 {
						reported++
						r.Violation(sig, what+"\nbefore:\n"+drawn+"after:\n"+c11Draw(seed), map[string]any{"parent": append([]int(nil), parent...), "statuses": append([]int(nil), assign...), "leaf_urls": append([]int(nil), urlOf...)})
					}
				}
				for u, c := range after {
					if c > 1 {
						fail("partD/url-kept-twice", fmt.Sprintf("after DedupeItems %d non-seed nodes carry %s", c, u))
					}
				}
				for u := range before {
					if after[u] == 0 {
						fail("partD/url-lost", fmt.Sprintf("DedupeItems removed every node carrying %s", u))
					}
				}
				if _, _, err := c11Structure(seed); err != nil {
					fail("partD/structure", err.Error())
				} else if err := seed.CheckConsistency(); err != nil {
					fail("partD/consistency", err.Error())
				}
			}
			recURL = func(j int) {
				if j == len(leaves) {
					check()
					return
				}
				for l := range letters {
					urlOf[j] = l
					recURL(j + 1)
				}
			}
			var recAssign func(j int)
			recAssign = func(j int) {
				if j == n {
					recURL(0)
					return
				}
				for s := range statuses {
					assign[j] = s
					recAssign(j + 1)
				}
			}
			recAssign(0)
		}
		recParents(1)
	}
	return
}
