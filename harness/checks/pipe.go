package checks

import (
	"encoding/json"
	"fmt"
	"math/rand"
	"os"
	"path/filepath"
	"runtime"
	"strings"
	"sync"
	"sync/atomic"
	"syscall"
	"time"

	"github.com/internetarchive/Zeno/internal/pkg/config"
	"github.com/internetarchive/Zeno/internal/pkg/controler"
	"github.com/internetarchive/Zeno/internal/pkg/controler/pause"
	"github.com/internetarchive/Zeno/internal/pkg/verifhook"
	"github.com/internetarchive/Zeno/internal/verif/vc"
)

// Full-pipeline driver: one child process = one lifetime of controler.Start() ... controler.Stop().

type pipeConfig struct {
	Workers              int      `json:"workers"`
	MaxConcurrentAssets  int      `json:"max_concurrent_assets"`
	DisableSeencheck     bool     `json:"disable_seencheck"`
	MaxHops              int      `json:"max_hops"`
	MaxRetry             int      `json:"max_retry"`
	MaxRedirect          int      `json:"max_redirect"`
	WARCPoolSize         int      `json:"warc_pool_size"`
	WARCOnDisk           bool     `json:"warc_on_disk"`
	DisableLocalDedupe   bool     `json:"disable_local_dedupe"`
	WARCWriteAsync       bool     `json:"async_warc_write"`
	WARCDiscardStatus    []int    `json:"warc_discard_status"`
	RateLimit            bool     `json:"rate_limit"`
	RateCapacity         float64  `json:"rate_capacity"`
	RateRefill           float64  `json:"rate_refill"`
	Proxy                string   `json:"proxy"`
	DomainsCrawl         []string `json:"domains_crawl"`
	DisableAssetsCapture bool     `json:"disable_assets_capture"`
	UseHQ                bool     `json:"use_hq"`
	HQAddress            string   `json:"hq_address"`
	HQBatchSize          int      `json:"hq_batch_size"`
	HQBatchConcurrency   int      `json:"hq_batch_concurrency"`
	Job                  string   `json:"job"`
	MinSpaceRequired     float64  `json:"min_space_required"`
}

type trigger struct {
	Point      string `json:"point"`
	Occurrence int    `json:"occurrence"`
	Action     string `json:"action"` // stop | sigterm | kill | pause | resume
}

type pipeEvent struct {
	Seq   int64  `json:"seq"`
	Point string `json:"point"`
	ID    string `json:"id,omitempty"`
	URL   string `json:"url,omitempty"`
	N     int    `json:"n,omitempty"`
}

type pipeRun struct {
	Cfg          pipeConfig
	Dir          string
	seq          atomic.Int64
	evMu         sync.Mutex
	events       []pipeEvent
	counts       map[string]int
	lastActivity atomic.Int64 // seq of the last "real" event
	org          *origin
	triggers     []trigger
	perturbSeed  int64
	perturb      int // 0 none, 1 light, 2 heavy
	wt           *os.File
	itemHooks    map[string]func(item any, seq int64)
	eventHooks   []func(e pipeEvent)
	stopCalled   atomic.Int64
	// tracked shadows the size of the reactor's state table from the reactor.insert /
	// reactor.finish.deleted events (both are emitted right after the table operation). The monitor
	// goroutine must not call reactor.GetStateTable() while a stop may run elsewhere: that reads the
	// package-level reactor pointer which Stop() clears, a race the harness itself would introduce.
	tracked      atomic.Int64
	stopReturned atomic.Int64
	started      bool
	// ready is closed once controler.Start() has returned (and, in SIGTERM mode, WatchSignals is
	// installed). A stop fired by a trigger waits for it: the real command line only starts watching
	// signals after Start() returned, so a stop overlapping Start() is a schedule Zeno cannot have.
	ready        chan struct{}
	actionsFired []string
}

func (p *pipeRun) nextSeq() int64 { return p.seq.Add(1) }

func newPipeRun(dir string, cfg pipeConfig) *pipeRun {
	return &pipeRun{Cfg: cfg, Dir: dir, counts: map[string]int{}, itemHooks: map[string]func(any, int64){}, ready: make(chan struct{})}
}

func (p *pipeRun) applyConfig(inputSeeds []string) error {
	c := p.Cfg
	zenoConfig(p.Dir, true, func(z *config.Config) {
		z.WorkersCount = max(1, c.Workers)
		z.MaxConcurrentAssets = max(1, c.MaxConcurrentAssets)
		z.DisableSeencheck = c.DisableSeencheck
		z.MaxHops = c.MaxHops
		z.MaxRetry = c.MaxRetry
		if c.MaxRedirect >= 0 {
			z.MaxRedirect = c.MaxRedirect
		}
		z.WARCPoolSize = max(1, c.WARCPoolSize)
		z.WARCOnDisk = c.WARCOnDisk
		z.DisableLocalDedupe = c.DisableLocalDedupe
		z.WARCWriteAsync = c.WARCWriteAsync
		if c.WARCDiscardStatus != nil {
			z.WARCDiscardStatus = c.WARCDiscardStatus
		}
		z.DisableRateLimit = !c.RateLimit
		if c.RateCapacity > 0 {
			z.RateLimitCapacity = c.RateCapacity
		}
		if c.RateRefill > 0 {
			z.RateLimitRefillRate = c.RateRefill
		}
		z.Proxy = c.Proxy
		z.DomainsCrawl = c.DomainsCrawl
		z.DisableAssetsCapture = c.DisableAssetsCapture
		z.UseHQ = c.UseHQ
		z.HQAddress = c.HQAddress
		z.HQBatchSize = c.HQBatchSize
		z.HQBatchConcurrency = max(1, c.HQBatchConcurrency)
		z.HQKey, z.HQSecret, z.HQProject = "k", "s", "verif"
		if c.Job != "" {
			z.Job = c.Job
		}
		if c.MinSpaceRequired != 0 {
			z.MinSpaceRequired = c.MinSpaceRequired
		}
		z.InputSeeds = inputSeeds
		z.LogFileLevel = "debug"
	})
	return config.GenerateCrawlConfig()
}

// installHooks wires the event log, perturbation and triggers.
func (p *pipeRun) installHooks(writeThrough bool) {
	if writeThrough {
		p.wt, _ = os.OpenFile(filepath.Join(p.Dir, "events.log"), os.O_CREATE|os.O_WRONLY|os.O_APPEND, 0o644)
	}
	verifhook.SetHandler(func(point, id, url string, n int, item any) {
		s := p.nextSeq()
		if item != nil {
			if it, ok := item.(interface{ GetID() string }); ok {
				id = it.GetID()
			}
		}
		e := pipeEvent{Seq: s, Point: point, ID: id, URL: url, N: n}
		switch point {
		case "reactor.insert":
			p.tracked.Add(1)
		case "reactor.finish.deleted":
			p.tracked.Add(-1)
		}
		p.evMu.Lock()
		p.events = append(p.events, e)
		p.counts[point]++
		occ := p.counts[point]
		var fire []trigger
		for _, t := range p.triggers {
			if t.Point == point && t.Occurrence == occ {
				fire = append(fire, t)
			}
		}
		hooks := p.eventHooks
		p.evMu.Unlock()
		if !(point == "lq.get.committed" && n == 0) {
			p.lastActivity.Store(s)
		}
		if p.wt != nil {
			b, _ := json.Marshal(e)
			p.wt.Write(append(b, '\n'))
		}
		for _, h := range hooks {
			h(e)
		}
		if item != nil {
			if f := p.itemHooks[point]; f != nil {
				f(item, s)
			}
		}
		for _, t := range fire {
			p.fire(t)
		}
		if p.perturb > 0 && point != "lq.get.committed" {
			x := vc.DeriveSeed(p.perturbSeed, point, "", occ) % 16
			switch {
			case x < 4:
				runtime.Gosched()
			case x < 6 && p.perturb >= 1:
				time.Sleep(time.Duration(50+x*40) * time.Microsecond)
			case x == 6 && p.perturb >= 2:
				time.Sleep(time.Duration(1+x%5) * time.Millisecond)
			}
		}
	})
}

func (p *pipeRun) fire(t trigger) {
	p.evMu.Lock()
	p.actionsFired = append(p.actionsFired, fmt.Sprintf("%s@%s#%d", t.Action, t.Point, t.Occurrence))
	p.evMu.Unlock()
	switch t.Action {
	case "kill":
		if p.wt != nil {
			p.wt.Sync()
		}
		syscall.Kill(os.Getpid(), syscall.SIGKILL)
		select {}
	case "sigterm":
		go func() {
			<-p.ready
			if !p.stopCalled.CompareAndSwap(0, p.nextSeq()) {
				return // a second SIGTERM would force-exit the process (that is by design of WatchSignals)
			}
			syscall.Kill(os.Getpid(), syscall.SIGTERM)
		}()
	case "stop":
		go func() { <-p.ready; p.stop() }()
	case "pause":
		go pause.Pause("verif trigger")
	case "resume":
		go pause.Resume()
	}
}

// start runs controler.Start() as cmd/get_*.go does, optionally followed by WatchSignals, and then
// lets pending stop triggers through.
func (p *pipeRun) start(watchSignals bool) {
	controler.Start()
	if watchSignals {
		go controler.WatchSignals()
		time.Sleep(20 * time.Millisecond) // signal.Notify is the first statement of WatchSignals
	}
	p.started = true
	close(p.ready)
}

func (p *pipeRun) stop() {
	if !p.stopCalled.CompareAndSwap(0, p.nextSeq()) {
		return
	}
	controler.Stop()
	p.stopReturned.Store(p.nextSeq())
}

func (p *pipeRun) eventsCopy() []pipeEvent {
	p.evMu.Lock()
	defer p.evMu.Unlock()
	return append([]pipeEvent(nil), p.events...)
}

func (p *pipeRun) count(point string) int {
	p.evMu.Lock()
	defer p.evMu.Unlock()
	return p.counts[point]
}

// waitQuiescent waits until the pipeline is structurally idle: no real hook event and no open origin
// request for quietFor, and (needEmpty) the reactor tracks nothing. Returns "quiescent", "stopped",
// "stuck" (quiet for stuckAfter but the reactor still tracks seeds) or "watchdog".
func (p *pipeRun) waitQuiescent(quietFor, stuckAfter, maxWall time.Duration) string {
	start := time.Now()
	last := p.lastActivity.Load()
	lastChange := time.Now()
	for time.Since(start) < maxWall {
		time.Sleep(50 * time.Millisecond)
		if p.stopReturned.Load() != 0 {
			return "stopped"
		}
		cur := p.lastActivity.Load()
		busy := p.org != nil && p.org.openRequests() > 0
		if cur != last || busy {
			last, lastChange = cur, time.Now()
			continue
		}
		if p.stopCalled.Load() != 0 {
			continue // a stop is in progress: wait for it (or for the watchdog)
		}
		quiet := time.Since(lastChange)
		tracked := int(p.tracked.Load())
		if quiet >= quietFor && tracked == 0 {
			return "quiescent"
		}
		if quiet >= stuckAfter && tracked > 0 {
			return "stuck"
		}
	}
	return "watchdog"
}

func goroutineDump() string {
	buf := make([]byte, 4<<20)
	return string(buf[:runtime.Stack(buf, true)])
}

// stuckFrames summarises where the non-idle Zeno goroutines are parked.
func stuckFrames(dump string) []string {
	var out []string
	for _, g := range strings.Split(dump, "\n\n") {
		if !strings.Contains(g, "internetarchive/Zeno/internal/pkg") || strings.Contains(g, "/internal/verif/checks.(*pipeRun)") {
			continue
		}
		lines := strings.Split(g, "\n")
		head := lines[0]
		frame := ""
		for _, l := range lines[1:] {
			if strings.HasPrefix(l, "github.com/internetarchive/Zeno/internal/pkg") {
				frame = strings.TrimPrefix(l, "github.com/internetarchive/Zeno/")
				if i := strings.LastIndex(frame, "("); i > 0 {
					frame = frame[:i]
				}
				break
			}
		}
		st := head
		if i := strings.Index(head, "["); i >= 0 {
			st = head[i:]
		}
		out = append(out, frame+" "+st)
	}
	sortStrings(out)
	return out
}

func pipeRand(seed int64, label string, idx ...int) *rand.Rand {
	return rand.New(rand.NewSource(vc.DeriveSeed(seed, "pipe", label, idx...)))
}
