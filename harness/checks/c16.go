package checks

import (
	"context"
	"fmt"
	"github.com/internetarchive/Zeno/internal/pkg/archiver/ratelimiter"
	"os"
	"path/filepath"
	"runtime"
	"sort"
	"strings"
	"sync"
	"sync/atomic"
	"time"

	"github.com/google/uuid"
	"github.com/internetarchive/Zeno/internal/pkg/archiver"
	"github.com/internetarchive/Zeno/internal/pkg/config"
	"github.com/internetarchive/Zeno/internal/pkg/reactor"
	"github.com/internetarchive/Zeno/internal/verif/vc"
	"github.com/internetarchive/Zeno/pkg/models"
)

// C16 — resource use does not grow with the number of seeds processed.
// One pipeline lifetime, two quiescent points (after N and after 4N seeds); the origin lives in the
// parent so that its goroutines and sockets are not in the child's footprint.

func init() {
	register("C16", c16)
	registerChild("pipe-c16", c16Child)
	registerChild("c16-limiter-bound", c16LimiterBoundChild)
}

type c16Scenario struct {
	Seed  int64      `json:"seed"`
	Index int        `json:"index"`
	Cfg   pipeConfig `json:"cfg"`
	Hub1  string     `json:"hub1"`
	Hub2  string     `json:"hub2"`
}

type footprint struct {
	Goroutines     int            `json:"goroutines"`
	FDs            map[string]int `json:"fds"`
	TempFiles      int            `json:"temp_files"`
	Tracked        int            `json:"tracked_seeds"`
	Tokens         int            `json:"tokens_in_use"`
	Buckets        int            `json:"limiter_buckets"`
	MaxBuckets     int            `json:"limiter_max_buckets"`
	Stable         bool           `json:"stable"`
	GoroutineKinds map[string]int `json:"goroutine_kinds,omitempty"`
}

func fdClasses(jobPath string) map[string]int {
	m := map[string]int{}
	ents, _ := os.ReadDir("/proc/self/fd")
	for _, e := range ents {
		t, err := os.Readlink("/proc/self/fd/" + e.Name())
		if err != nil {
			continue
		}
		switch {
		case strings.HasPrefix(t, "socket:"):
			m["socket"]++
		case strings.Contains(t, "/seencheck/"):
			m["seencheck-db"]++ // LevelDB opens table files on demand (bounded by its own cache)
		case strings.Contains(t, "/logs/"):
			m["log"]++
		case strings.Contains(t, "/warcs/"):
			m["warc"]++
		case strings.Contains(t, "/temp"):
			m["temp-file"]++
		case strings.Contains(t, "lq.db"):
			m["lq-db"]++
		case strings.HasPrefix(t, "pipe:") || strings.HasPrefix(t, "anon_inode:") || strings.HasPrefix(t, "/dev/"):
			m["process"]++
		case strings.HasPrefix(t, "/proc/"):
			// the directory handle of this very listing
		default:
			m["other:"+filepath.Base(t)]++
		}
	}
	return m
}

func goroutineKinds() map[string]int {
	m := map[string]int{}
	for _, g := range strings.Split(goroutineDump(), "\n\n") {
		lines := strings.Split(g, "\n")
		top := ""
		for _, l := range lines[1:] {
			if !strings.HasPrefix(l, "\t") && l != "" {
				top = l
				if i := strings.LastIndex(top, "("); i > 0 {
					top = top[:i]
				}
				break
			}
		}
		// the creator gives a better identity than the parked frame
		for _, l := range lines {
			if strings.HasPrefix(l, "created by ") {
				top = strings.TrimPrefix(l, "created by ")
				if i := strings.Index(top, " in goroutine"); i > 0 {
					top = top[:i]
				}
			}
		}
		m[top]++
	}
	return m
}

func takeFootprint() footprint {
	c := config.Get()
	sample := func() footprint {
		f := footprint{Goroutines: runtime.NumGoroutine(), FDs: fdClasses(c.JobPath), Tracked: len(reactor.GetStateTable()), Tokens: reactor.VerifTokensInUse()}
		tf, _ := filepath.Glob(filepath.Join(c.WARCTempDir, "*"))
		f.TempFiles = len(tf)
		if bm := archiver.VerifBucketManager(); bm != nil {
			f.Buckets, f.MaxBuckets = bm.VerifBucketCount()
		}
		return f
	}
	key := func(f footprint) string {
		return fmt.Sprintf("%d|%v|%d|%d|%d", f.Goroutines, f.FDs, f.TempFiles, f.Tracked, f.Tokens)
	}
	var last footprint
	same := 0
	for i := 0; i < 100; i++ {
		f := sample()
		if i > 0 && key(f) == key(last) {
			same++
		} else {
			same = 0
		}
		last = f
		if same >= 5 {
			last.Stable = true
			break
		}
		time.Sleep(200 * time.Millisecond)
	}
	last.GoroutineKinds = goroutineKinds()
	return last
}

func c16Child(scPath string) int {
	var sc c16Scenario
	if err := readJSON(scPath, &sc); err != nil {
		return 2
	}
	dir := os.Getenv("VZ_CHILD_DIR")
	pr := newPipeRun(dir, sc.Cfg)
	if err := pr.applyConfig([]string{sc.Hub1}); err != nil {
		return 2
	}
	pr.installHooks(false)
	pr.start(false)
	res := map[string]any{}
	v1 := pr.waitQuiescent(7*time.Second, 14*time.Second, 200*time.Second)
	f1 := takeFootprint()
	n1 := pr.count("fin.notified")
	// second batch: insert the second hub the way startPipeline inserts input seeds
	u := &models.URL{Raw: sc.Hub2}
	u.Parse()
	it := models.NewItem(uuid.New().String(), u, "")
	it.SetSource(models.ItemSourceQueue)
	v2, f2 := "not-run", f1
	if v1 == "stuck" {
		// the reactor still tracks seeds although nothing moves: a second batch could not even be inserted
		// once the tokens are used up; the first footprint already decides
		res["second_batch"] = "skipped: the first batch never drained"
	} else {
		inserted := make(chan error, 1)
		go func() { inserted <- reactor.ReceiveInsert(it) }()
		select {
		case err := <-inserted:
			if err != nil {
				res["insert_error"] = err.Error()
			}
		case <-time.After(60 * time.Second):
			res["insert_error"] = "ReceiveInsert of the second hub did not return within 60 s"
		}
		time.Sleep(300 * time.Millisecond)
		v2 = pr.waitQuiescent(7*time.Second, 14*time.Second, 400*time.Second)
		f2 = takeFootprint()
	}
	n2 := pr.count("fin.notified")
	res["verdict1"], res["verdict2"], res["after_n"], res["after_4n"], res["seeds_n"], res["seeds_4n"] = v1, v2, f1, f2, n1, n2
	res["requests"] = pr.count("arch.do")
	writeJSON(filepath.Join(dir, "result.json"), res)
	done := make(chan struct{})
	go func() { pr.stop(); close(done) }()
	select {
	case <-done:
	case <-time.After(60 * time.Second):
	}
	return 0
}

// c16Site: mixed seeds on many hosts: big text bodies (spooled to disk), failures with retries, redirects, 404s.
func c16Site(o *origin, seedv int64, idx, n int, hostBase int) []string {
	rng := pipeRand(seedv, "c16site", idx, hostBase)
	var seeds []string
	big := make([]byte, 2<<20+4096)
	for i := range big {
		big[i] = byte('a' + i%26)
		if i%80 == 79 {
			big[i] = '\n'
		}
	}
	// assets shared by many pages: with seencheck on they are "seen" from the second page on, and they
	// come first in the page, ahead of the page's own assets
	sharedHost := hostOf(hostBase+4, 250, o.Port)
	var shared []string
	for k := 0; k < 3; k++ {
		u := fmt.Sprintf("/shared/%d.png", k)
		o.set(sharedHost, u, &route{Status: 200, Headers: map[string]string{"Content-Type": "image/png"}, Body: pngBytes, Tag: "shared"})
		shared = append(shared, "http://"+sharedHost+u)
	}
	for s := 0; s < n; s++ {
		h := hostOf(hostBase+s/200, 1+s%200, o.Port)
		var assets []string
		if rng.Intn(3) == 0 {
			assets = append(assets, shared[:2+rng.Intn(2)]...)
		}
		for a := 0; a < 2+rng.Intn(5); a++ {
			uri := fmt.Sprintf("/x/%d-%d", a, rng.Int63n(1<<40))
			switch rng.Intn(10) {
			case 9: // a large text body whose connection dies after the spool threshold
				o.set(h, uri+".txt", &route{Status: 200, Headers: map[string]string{"Content-Type": "text/plain"}, Body: append(append([]byte(nil), big...), big[:1<<20]...), TruncateAt: 2<<20 + 50000 + rng.Intn(100000), Tag: "big-text-truncated"})
				assets = append(assets, uri+".txt")
			case 0:
				o.set(h, uri+".txt", &route{Status: 200, Headers: map[string]string{"Content-Type": "text/plain"}, Body: big, Tag: "big-text"})
				assets = append(assets, uri+".txt")
			case 1:
				o.set(h, uri+".png", &route{Status: 503, Body: []byte("no"), Tag: "always-503"})
				assets = append(assets, uri+".png")
			case 2:
				o.set(h, uri+".png", &route{Status: 302, Headers: map[string]string{"Location": uri + ".t.png"}, Tag: "redirect"})
				o.set(h, uri+".t.png", &route{Status: 200, Headers: map[string]string{"Content-Type": "image/png"}, Body: pngBytes, Tag: "redirect-target"})
				assets = append(assets, uri+".png")
			case 3:
				o.set(h, uri+".png", &route{Status: 404, Body: []byte("no"), Tag: "404"})
				assets = append(assets, uri+".png")
			case 4:
				o.set(h, uri+".json", &route{Status: 200, Headers: map[string]string{"Content-Type": "application/json"}, Body: []byte(fmt.Sprintf(`{"a":"http://%s/x/leaf%d.png"}`, h, a)), Tag: "json"})
				o.set(h, fmt.Sprintf("/x/leaf%d.png", a), &route{Status: 200, Headers: map[string]string{"Content-Type": "image/png"}, Body: pngBytes, Tag: "leaf"})
				assets = append(assets, uri+".json")
			case 5:
				r := &route{Status: 200, Headers: map[string]string{"Content-Type": "text/html"}, Body: []byte("<html>late</html>"), FailFirst: 1, FailStatus: 500, Tag: "fail-once"}
				o.set(h, uri+".html", r)
				assets = append(assets, uri+".html")
			case 6:
				o.set(h, uri+".bin", &route{AlwaysReset: true, Tag: "reset"})
				assets = append(assets, uri+".bin")
			case 7: // a gzip-encoded error page of some size on every attempt (the last attempt's body must be released too)
				body := make([]byte, 48<<10)
				rng.Read(body) // incompressible: > 4 KiB on the wire
				o.set(h, uri+".dat", &route{Status: pick2(rng, 503, 500), Headers: map[string]string{"Content-Type": "text/html"}, Body: body, Gzip: true, Tag: "always-5xx-gzip-large"})
				assets = append(assets, uri+".dat")
			default:
				o.set(h, uri+".png", &route{Status: 200, Headers: map[string]string{"Content-Type": "image/png"}, Body: pngBytes, Tag: "leaf"})
				assets = append(assets, uri+".png")
			}
		}
		if rng.Intn(3) == 0 {
			// a host that answers every request with an error (its limiter bucket only ever sees failures)
			o.set(h, "/p.html", &route{Status: pick2(rng, 503, 429), Body: []byte("down"), Tag: "failing-host"})
		} else {
			o.set(h, "/p.html", &route{Status: 200, Headers: map[string]string{"Content-Type": "text/html"}, Body: htmlPage("p", assets, nil), Tag: "page"})
		}
		seeds = append(seeds, "http://"+h+"/p.html")
	}
	return seeds
}

func c16(r *vc.Run) int {
	type plan struct {
		n         int
		seencheck bool
		limiter   bool
		workers   int
	}
	var plans []plan
	if r.Thorough() {
		for i := 0; i < 24; i++ {
			plans = append(plans, plan{[]int{15, 40, 100}[i%3], i%2 == 0, i%4 < 2, 1 + i%4})
		}
	} else {
		plans = []plan{{15, true, true, 2}, {15, false, false, 4}, {24, true, false, 1}, {20, false, true, 3}}
	}
	var evaluations atomic.Int64
	classes := vc.NewDistinct()
	samples := vc.NewSamples(4)
	var seqCtr atomic.Int64
	parallel(len(plans), 8, func(i int) {
		p := plans[i]
		label := fmt.Sprintf("run%d[N=%d seencheck=%v limiter=%v workers=%d]", i, p.n, p.seencheck, p.limiter, p.workers)
		org, err := newOrigin(func() int64 { return seqCtr.Add(1) })
		if err != nil {
			return
		}
		defer org.close()
		s1 := c16Site(org, r.Seed, i, p.n, 11)
		s2 := c16Site(org, r.Seed, i, 3*p.n, 20)
		// a share of the queue rows is outside the operator's scope (archive.org is always excluded):
		// such seeds are finished without a fetch and must leave the reactor like any other
		for k := 0; k <= p.n/6; k++ {
			s1 = append(s1, fmt.Sprintf("http://archive.org/details/n-%d-%d", i, k))
		}
		for k := 0; k <= p.n/2; k++ {
			s2 = append(s2, fmt.Sprintf("http://web.archive.org/web/2020/x-%d-%d", i, k))
		}
		hubHost := hostOf(10, 1, org.Port)
		org.set(hubHost, "/h1.html", &route{Status: 200, Headers: map[string]string{"Content-Type": "text/html"}, Body: htmlPage("h1", nil, s1), Tag: "hub"})
		org.set(hubHost, "/h2.html", &route{Status: 200, Headers: map[string]string{"Content-Type": "text/html"}, Body: htmlPage("h2", nil, s2), Tag: "hub"})
		cfg := pipeConfig{Workers: p.workers, MaxConcurrentAssets: 2, MaxHops: 1, MaxRetry: 1, MaxRedirect: 5, WARCPoolSize: 1, DisableSeencheck: !p.seencheck, RateLimit: p.limiter}
		sc := c16Scenario{Seed: r.Seed, Index: i, Cfg: cfg, Hub1: "http://" + hubHost + "/h1.html", Hub2: "http://" + hubHost + "/h2.html"}
		dir := filepath.Join(r.Scratch, fmt.Sprintf("c16-%d", i))
		res := runChild(os.Getenv("VZ_BIN"), "pipe-c16", sc, dir, 12*time.Minute)
		if crashed, excerpt := res.Crashed(); crashed {
			r.Violation("crash/"+crashSig(res.Stderr), label+": "+truncate(excerpt, 500), nil)
			return
		}
		var out struct {
			V1 string    `json:"verdict1"`
			V2 string    `json:"verdict2"`
			A  footprint `json:"after_n"`
			B  footprint `json:"after_4n"`
			N1 int       `json:"seeds_n"`
			N2 int       `json:"seeds_4n"`
			Rq int       `json:"requests"`
		}
		if readJSON(filepath.Join(dir, "result.json"), &out) != nil {
			r.Inconclusive("no-result")
			r.Note("%s: no result: %s", label, tail(res.Stderr, 400))
			return
		}
		evaluations.Add(1)
		// "stuck" = no hook event and no open origin request for 14 s (three samples) while the reactor
		// still tracks seeds: the queue has drained and the reactor is not idle - the statement's first clause
		for name, ph := range map[string]struct {
			v string
			f footprint
		}{"N": {out.V1, out.A}, "4N": {out.V2, out.B}} {
			if ph.v == "stuck" && ph.f.Stable && (ph.f.Tracked != 0 || ph.f.Tokens != 0) {
				r.Violation("reactor-not-idle", fmt.Sprintf("%s: the pipeline went quiet after %s seeds with %d tracked seeds and %d tokens in use", label, name, ph.f.Tracked, ph.f.Tokens), map[string]any{"plan": fmt.Sprintf("%+v", p), "footprint": ph.f})
			}
		}
		if out.V1 != "quiescent" || out.V2 != "quiescent" || !out.A.Stable || !out.B.Stable {
			r.Inconclusive("not-quiescent-or-unstable")
			r.Note("%s: verdicts %s/%s stable %v/%v", label, out.V1, out.V2, out.A.Stable, out.B.Stable)
			return
		}
		w := map[string]any{"plan": fmt.Sprintf("%+v", p), "after_n": out.A, "after_4n": out.B, "seeds": []int{out.N1, out.N2}}
		if out.A.Goroutines != out.B.Goroutines {
			// name the kinds that grew
			var grew []string
			for k, n := range out.B.GoroutineKinds {
				if n > out.A.GoroutineKinds[k] {
					grew = append(grew, fmt.Sprintf("%s %d->%d", k, out.A.GoroutineKinds[k], n))
				}
			}
			sort.Strings(grew)
			sig := "goroutines-grow"
			if len(grew) > 0 {
				sig += "/" + strings.Fields(grew[0])[0]
			}
			if out.B.Goroutines > out.A.Goroutines {
				r.Violation(sig, fmt.Sprintf("%s: %d goroutines after %d seeds, %d after %d seeds; grew: %v", label, out.A.Goroutines, out.N1, out.B.Goroutines, out.N2, grew), w)
			}
		}
		keys := map[string]bool{}
		for k := range out.A.FDs {
			keys[k] = true
		}
		for k := range out.B.FDs {
			keys[k] = true
		}
		for k := range keys {
			if k == "seencheck-db" || k == "log" {
				continue // LevelDB table cache / log rotation: classed apart, bounded by their own configuration
			}
			if out.B.FDs[k] > out.A.FDs[k] {
				r.Violation("fds-grow/"+strings.SplitN(k, ":", 2)[0], fmt.Sprintf("%s: %d open descriptors of class %s after %d seeds, %d after %d seeds", label, out.A.FDs[k], k, out.N1, out.B.FDs[k], out.N2), w)
			}
		}
		for name, f := range map[string]footprint{"N": out.A, "4N": out.B} {
			if f.TempFiles != 0 || f.FDs["temp-file"] != 0 {
				r.Violation("temp-files-left", fmt.Sprintf("%s: %d files in the WARC temp dir and %d open temp descriptors at quiescence after %s seeds", label, f.TempFiles, f.FDs["temp-file"], name), w)
			}
			if f.Tracked != 0 || f.Tokens != 0 {
				r.Violation("reactor-not-idle", fmt.Sprintf("%s: %d tracked seeds, %d tokens in use at quiescence after %s seeds", label, f.Tracked, f.Tokens, name), w)
			}
			if f.MaxBuckets > 0 && f.Buckets > f.MaxBuckets {
				r.Violation("limiter-table-over-bound", fmt.Sprintf("%s: %d limiter buckets, bound %d", label, f.Buckets, f.MaxBuckets), w)
			}
		}
		classes.Add(fmt.Sprintf("N=%d/seencheck=%v/limiter=%v/workers=%d", p.n, p.seencheck, p.limiter, p.workers))
		samples.Add(map[string]any{"plan": fmt.Sprintf("%+v", p), "seeds_after_phase": []int{out.N1, out.N2}, "requests": out.Rq, "after_n": map[string]any{"goroutines": out.A.Goroutines, "fds": out.A.FDs, "buckets": out.A.Buckets}, "after_4n": map[string]any{"goroutines": out.B.Goroutines, "fds": out.B.FDs, "buckets": out.B.Buckets}})
		os.RemoveAll(dir)
	})
	// the limiter table's bound under concurrent first contacts (manager level, see c16LimiterBoundChild)
	lm := newMerged()
	lres := runChild(os.Getenv("VZ_BIN"), "c16-limiter-bound", map[string]any{"seed": r.Seed, "rounds": r.N(1500, 20000)}, filepath.Join(r.Scratch, "c16-limiter-bound"), 10*time.Minute)
	absorb(r, lm, lres, "limiter-bound", nil, true)
	evaluations.Add(int64(lm.Evaluations))
	for k := range lm.Distinct {
		classes.Add(k)
	}
	cov := map[string]any{
		"limiter_bound_events": lm.Events,
		"evaluations":          int(evaluations.Load()),
		"distinct_nontrivial":  classes.Len(),
		"rule":                 "one evaluation = one pipeline lifetime measured at two quiescent points (after N and after 4N seeds: big spooled text bodies, always-503 with retries, resets, redirects, 404s, JSON assets, more hosts than limiter buckets); footprint = goroutines, open descriptors by class, files in the WARC temp dir, tracked seeds, tokens, limiter buckets; distinct = distinct (N, seencheck, limiter, workers) plans that reached two stable quiescent points",
		"samples":              samples.List(),
		"classes":              classes.Counts(),
	}
	return r.Finish("exploration", cov, []string{
		"origin server in the parent process; a footprint is taken when five consecutive samples 200 ms apart agree",
		"descriptors under seencheck/ (LevelDB table cache) and logs/ are classed apart and not compared",
	}, 2)
}

// c16LimiterBoundChild: the limiter table under concurrent first contacts with new hosts (several
// workers starting seeds of hosts never seen before at the same instant, table already full). The
// bound is checked after every round, when no call is in progress.
func c16LimiterBoundChild(scPath string) int {
	var sc struct {
		Seed   int64 `json:"seed"`
		Rounds int   `json:"rounds"`
	}
	if err := readJSON(scPath, &sc); err != nil {
		return 2
	}
	dir := os.Getenv("VZ_CHILD_DIR")
	rep := newReport()
	defer rep.write(dir)
	ctx, cancel := context.WithCancel(context.Background())
	defer cancel()
	const bound, callers = 4, 8
	bm := ratelimiter.NewBucketManager(ctx, bound, 100, 1000, time.Hour)
	defer bm.Close()
	worst := 0
	for round := 0; round < sc.Rounds; round++ {
		var ready atomic.Int64
		var gate atomic.Bool
		var wg sync.WaitGroup
		for i := 0; i < callers; i++ {
			wg.Add(1)
			go func(i int) {
				defer wg.Done()
				host := fmt.Sprintf("new-%d-%d.example", round, i)
				ready.Add(1)
				for !gate.Load() {
					runtime.Gosched()
				}
				bm.Wait(host)
				if i%2 == 0 {
					bm.OnSuccess(host)
				} else {
					bm.AdjustOnFailure(host, 503)
				}
			}(i)
		}
		for ready.Load() < callers {
			runtime.Gosched()
		}
		gate.Store(true)
		wg.Wait()
		n, max := bm.VerifBucketCount()
		if n > worst {
			worst = n
		}
		if n > max {
			rep.violation("limiter-table-over-bound/concurrent-first-contacts", fmt.Sprintf("after round %d (%d goroutines contacting %d new hosts at the same instant) the limiter table holds %d buckets, configured bound %d", round, callers, callers, n, max), map[string]any{"round": round, "buckets": n, "bound": max})
			break
		}
	}
	rep.Evaluations = 1
	rep.event("limiter_bound_rounds", sc.Rounds)
	rep.event("limiter_table_max_seen", worst)
	rep.distinct("limiter-bound/concurrent-first-contacts")
	return 0
}
