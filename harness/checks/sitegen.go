package checks

import (
	"fmt"
	"math/rand"
	"strings"
)

// Site generator for the end-to-end runs: a hub page (input seed) whose anchors become queue rows,
// each pointing to a generated "seed site" on its own loopback host.

type genSite struct {
	o      *origin
	port   int
	rng    *rand.Rand
	nHost  int
	Seeds  []genSeed // expected queue seeds (anchors of the hubs that are valid, in-scope URLs)
	Hubs   []string
	shared []string // asset URLs shared between seeds
	// maxRedirect is the run's --max-redirect: the target of the k-th redirect of a chain belongs to
	// the tree only if k <= maxRedirect (0 = not known to the generator: no redirect obligations)
	maxRedirect int
}

// hopExpect returns the obligation of the k-th (1-based) redirect of a chain.
func (g *genSite) hopExpect(k int, target string) []string {
	if k <= g.maxRedirect {
		return []string{target}
	}
	return nil
}

type genSeed struct {
	URL   string
	Shape string
}

func (g *genSite) host() string {
	g.nHost++
	return hostOf(1+g.nHost/250, 1+g.nHost%250, g.port)
}

var pngBytes = []byte{0x89, 'P', 'N', 'G', 0x0d, 0x0a, 0x1a, 0x0a, 0, 0, 0, 0x0d, 'I', 'H', 'D', 'R', 0, 0, 0, 1, 0, 0, 0, 1, 8, 2, 0, 0, 0}

func (g *genSite) leaf(tag string) *route {
	b := append(append([]byte(nil), pngBytes...), []byte(fmt.Sprintf("%d-%d", g.rng.Int63(), g.rng.Int63()))...)
	r := &route{Status: 200, Headers: map[string]string{"Content-Type": "image/png"}, Body: b, Tag: tag}
	if g.rng.Intn(6) == 0 {
		r.DelayMs = 3 + g.rng.Intn(40)
	}
	return r
}

func htmlPage(title string, assets, anchors []string) []byte {
	var b strings.Builder
	b.WriteString("<!DOCTYPE html><html><head><title>" + title + "</title></head><body>\n")
	for _, a := range assets {
		fmt.Fprintf(&b, "<img src=\"%s\">\n", strings.ReplaceAll(a, "&", "&amp;"))
	}
	for _, a := range anchors {
		fmt.Fprintf(&b, "<a href=\"%s\">l</a>\n", strings.ReplaceAll(a, "&", "&amp;"))
	}
	b.WriteString("</body></html>\n")
	return []byte(b.String())
}

// expectOf turns the reference texts planted on a document of host h into the absolute URLs that
// must be requested at least once in the run (references that are unparseable, unsupported, excluded
// or loopback by construction are left out).
func expectOf(h string, refs []string) []string {
	var out []string
	for _, s := range refs {
		if i := strings.Index(s, "#"); i >= 0 {
			s = s[:i]
		}
		switch {
		case strings.HasPrefix(s, "http://127.0.0.1:"), strings.HasPrefix(s, "http://archive.org"), strings.HasPrefix(s, "http://nodot"), strings.HasPrefix(s, "http://["), strings.HasPrefix(s, "http://%"):
		case strings.HasPrefix(s, "http://"):
			out = append(out, s)
		case strings.HasPrefix(s, "./"):
			out = append(out, "http://"+h+s[1:]) // generated documents live in the root directory
		case strings.HasPrefix(s, "/"):
			out = append(out, "http://"+h+s)
		}
	}
	return out
}

// writtenRefs keeps the reference forms the JSON / XML generators write into their documents.
func writtenRefs(refs []string) []string {
	var out []string
	for _, s := range refs {
		if strings.HasPrefix(s, "http") || strings.HasPrefix(s, "/") {
			out = append(out, s)
		}
	}
	return out
}

// addAssets creates n asset references for a page on host h; returns the reference texts.
func (g *genSite) addAssets(h string, n int, depth int) []string {
	var refs []string
	for i := 0; i < n; i++ {
		uri := fmt.Sprintf("/a/%d-%d.png", depth, g.rng.Int63n(1<<40))
		abs := "http://" + h + uri
		switch x := g.rng.Intn(24); {
		case x < 8: // plain leaf
			g.o.set(h, uri, g.leaf("leaf"))
			refs = append(refs, pick(g.rng, []string{abs, uri, "." + uri}))
		case x == 8: // duplicate spellings of one asset
			g.o.set(h, uri, g.leaf("dup"))
			refs = append(refs, abs, uri, abs+"#f")
		case x == 9 && len(g.shared) > 0: // shared between seeds
			refs = append(refs, g.shared[g.rng.Intn(len(g.shared))])
		case x == 10: // unparseable / unsupported / out of scope
			refs = append(refs, pick(g.rng, []string{"http://[bad", "data:image/png;base64,AAAA", "mailto:x@example.org", "http://archive.org/x.png", "http://127.0.0.1:" + fmt.Sprint(g.port) + "/loop.png", "http://nodot/x.png", "ftp://f.example/x.png", "javascript:void(0)", "http://%zz/"}))
		case x == 11:
			g.o.set(h, uri, &route{Status: 404, Headers: map[string]string{"Content-Type": "text/plain"}, Body: []byte("nope"), Tag: "404"})
			refs = append(refs, abs)
		case x == 12:
			g.o.set(h, uri, &route{Status: 410, Body: []byte("gone"), Tag: "410"})
			refs = append(refs, abs)
		case x == 13: // always failing
			g.o.set(h, uri, &route{Status: pick2(g.rng, 500, 503), Body: []byte("err"), Tag: "5xx-always"})
			refs = append(refs, abs)
		case x == 14: // fail once then fine
			r := g.leaf("fail-once")
			r.FailFirst, r.FailStatus = 1, pick2(g.rng, 500, 503)
			g.o.set(h, uri, r)
			refs = append(refs, abs)
		case x == 15: // connection reset, always or once
			r := g.leaf("reset")
			if g.rng.Intn(2) == 0 {
				r.AlwaysReset = true
			} else {
				r.FailFirst = 1
			}
			g.o.set(h, uri, r)
			refs = append(refs, abs)
		case x == 16: // redirecting asset (chain of 1-3, maybe a loop)
			cur := uri
			hops := 1 + g.rng.Intn(3)
			for k := 0; k < hops; k++ {
				next := fmt.Sprintf("/r/%d-%d.png", k, g.rng.Int63n(1<<40))
				g.o.set(h, cur, &route{Status: pick2(g.rng, 301, 302), Headers: map[string]string{"Location": next}, Tag: "asset-redirect", Expect: g.hopExpect(k+1, "http://"+h+next)})
				cur = next
			}
			if g.rng.Intn(4) == 0 {
				g.o.set(h, cur, &route{Status: 302, Headers: map[string]string{"Location": uri}, Tag: "asset-redirect-loop"})
			} else {
				g.o.set(h, cur, g.leaf("asset-redirect-end"))
			}
			refs = append(refs, abs)
		case x == 17 && depth < 3: // JSON asset referencing further assets
			juri := strings.Replace(uri, ".png", ".json", 1)
			sub := g.addAssets(h, 1+g.rng.Intn(3), depth+1)
			var parts []string
			for _, s := range sub {
				if strings.HasPrefix(s, "http") {
					parts = append(parts, fmt.Sprintf("%q", s))
				} else if strings.HasPrefix(s, "/") {
					parts = append(parts, fmt.Sprintf("%q", "http://"+h+s))
				}
			}
			g.o.set(h, juri, &route{Status: 200, Headers: map[string]string{"Content-Type": "application/json"}, Body: []byte(`{"items":[` + strings.Join(parts, ",") + `],"n":1}`), Tag: "json", Expect: expectOf(h, writtenRefs(sub))})
			refs = append(refs, "http://"+h+juri)
		case x == 18 && depth < 3: // XML asset
			xuri := strings.Replace(uri, ".png", ".xml", 1)
			sub := g.addAssets(h, 1+g.rng.Intn(2), depth+1)
			var sb strings.Builder
			sb.WriteString(`<?xml version="1.0"?><list>`)
			for _, s := range sub {
				if strings.HasPrefix(s, "/") {
					s = "http://" + h + s
				}
				if strings.HasPrefix(s, "http") {
					sb.WriteString("<e href=\"" + xmlEsc(s) + "\"/>")
				}
			}
			sb.WriteString("</list>")
			g.o.set(h, xuri, &route{Status: 200, Headers: map[string]string{"Content-Type": "application/xml"}, Body: []byte(sb.String()), Tag: "xml", Expect: expectOf(h, writtenRefs(sub))})
			refs = append(refs, "http://"+h+xuri)
		case x == 19 && depth < 3: // M3U8 with segments
			muri := strings.Replace(uri, ".png", ".m3u8", 1)
			var sb strings.Builder
			var segs []string
			sb.WriteString("#EXTM3U\n#EXT-X-VERSION:3\n#EXT-X-TARGETDURATION:10\n")
			for k := 0; k < 1+g.rng.Intn(3); k++ {
				seg := fmt.Sprintf("/seg/%d-%d.ts", k, g.rng.Int63n(1<<40))
				segs = append(segs, seg)
				g.o.set(h, seg, g.leaf("segment"))
				sb.WriteString("#EXTINF:9.0,\n" + seg + "\n")
			}
			sb.WriteString("#EXT-X-ENDLIST\n")
			g.o.set(h, muri, &route{Status: 200, Headers: map[string]string{"Content-Type": "application/vnd.apple.mpegurl"}, Body: []byte(sb.String()), Tag: "m3u8", Expect: expectOf(h, segs)})
			refs = append(refs, "http://"+h+muri)
		default:
			g.o.set(h, uri, g.leaf("leaf"))
			refs = append(refs, abs)
		}
	}
	return refs
}

func pick2(r *rand.Rand, a, b int) int {
	if r.Intn(2) == 0 {
		return a
	}
	return b
}

// addSeed creates one seed site and returns the URL to put on the hub.
func (g *genSite) addSeed() genSeed {
	h := g.host()
	uri := fmt.Sprintf("/page%d.html", g.rng.Intn(1000))
	u := "http://" + h + uri
	page := func(tag string) *route {
		n := g.rng.Intn(13)
		if g.rng.Intn(5) == 0 {
			n = 0
		}
		refs := g.addAssets(h, n, 1)
		return &route{Status: 200, Headers: map[string]string{"Content-Type": "text/html; charset=utf-8"}, Body: htmlPage(tag, refs, nil), Tag: tag, Expect: expectOf(h, refs)}
	}
	switch x := g.rng.Intn(20); {
	case x < 9:
		g.o.set(h, uri, page("page"))
		return genSeed{u, "page"}
	case x == 9:
		g.o.set(h, uri, &route{Status: 404, Body: []byte("no"), Tag: "seed-404"})
		return genSeed{u, "404"}
	case x == 10:
		g.o.set(h, uri, &route{Status: 410, Body: []byte("gone"), Tag: "seed-410"})
		return genSeed{u, "410"}
	case x == 11:
		g.o.set(h, uri, &route{Status: pick2(g.rng, 500, 503), Body: []byte("err"), Tag: "seed-5xx"})
		return genSeed{u, "5xx-always"}
	case x == 12:
		r := page("page-after-failure")
		r.FailFirst, r.FailStatus = 1, 503
		g.o.set(h, uri, r)
		return genSeed{u, "fail-once"}
	case x == 13 || x == 14: // redirect chain to a page
		cur := uri
		nh := 1 + g.rng.Intn(3)
		toRoot := g.rng.Intn(3) == 0 // the chain ends on the site root ("/", "http://host/" or "http://host")
		for k := 0; k < nh; k++ {
			next := fmt.Sprintf("/redir%d-%d.html", k, g.rng.Intn(100000))
			loc := next
			if g.rng.Intn(2) == 0 {
				loc = "http://" + h + next
			}
			if toRoot && k == nh-1 {
				next = "/"
				loc = pick(g.rng, []string{"/", "http://" + h + "/", "http://" + h})
			}
			g.o.set(h, cur, &route{Status: pick2(g.rng, 301, 302), Headers: map[string]string{"Location": loc}, Tag: "seed-redirect", Expect: g.hopExpect(k+1, "http://"+h+next)})
			cur = next
		}
		g.o.set(h, cur, page("page-after-redirect"))
		return genSeed{u, "redirect-chain"}
	case x == 15: // redirect loop
		g.o.set(h, uri, &route{Status: 302, Headers: map[string]string{"Location": "/loop2.html"}, Tag: "seed-loop"})
		g.o.set(h, "/loop2.html", &route{Status: 302, Headers: map[string]string{"Location": uri}, Tag: "seed-loop"})
		return genSeed{u, "redirect-loop"}
	case x == 16: // self redirect
		g.o.set(h, uri, &route{Status: 301, Headers: map[string]string{"Location": uri}, Tag: "seed-self-redirect"})
		return genSeed{u, "self-redirect"}
	case x == 17: // redirect to an invalid / out-of-scope target
		g.o.set(h, uri, &route{Status: 302, Headers: map[string]string{"Location": pick(g.rng, []string{"ftp://f.example/x", "http://archive.org/", "http://[bad", ""})}, Tag: "seed-bad-redirect"})
		return genSeed{u, "bad-redirect"}
	case x == 18: // connection reset
		g.o.set(h, uri, &route{AlwaysReset: true, Tag: "seed-reset"})
		return genSeed{u, "reset"}
	default: // page with query string
		u2 := u + "?b=2&a=1&b=3"
		g.o.set(h, uri+"?b=2&a=1&b=3", page("page-query"))
		return genSeed{u2, "page-query"}
	}
}

// build creates hubs with nSeeds anchors in total; returns the hub URLs (input seeds).
func (g *genSite) build(nSeeds, nHubs int) {
	sh := g.host()
	for i := 0; i < 4; i++ {
		uri := fmt.Sprintf("/shared/%d.png", i)
		g.o.set(sh, uri, g.leaf("shared"))
		g.shared = append(g.shared, "http://"+sh+uri)
	}
	per := (nSeeds + nHubs - 1) / nHubs
	for hb := 0; hb < nHubs; hb++ {
		h := g.host()
		var anchors []string
		for i := 0; i < per && len(g.Seeds) < nSeeds; i++ {
			s := g.addSeed()
			g.Seeds = append(g.Seeds, s)
			anchors = append(anchors, s.URL)
		}
		// anchors that must not become requests
		anchors = append(anchors, "ftp://f.example/file", "http://archive.org/web/", "mailto:a@b.example", "#top")
		// a URL text with a malformed percent-escape: the crawler's aggressive link regex queues such
		// texts unvalidated; the queue consumer cannot parse the row and finishes it without a fetch -
		// which must not affect the rows that follow it (the first hub's row precedes the later hubs' rows)
		if hb == 0 {
			anchors = append(anchors, "http://"+h+"/broken%zzescape/x.html")
		}
		uri := fmt.Sprintf("/hub%d.html", hb)
		g.o.set(h, uri, &route{Status: 200, Headers: map[string]string{"Content-Type": "text/html"}, Body: htmlPage("hub", nil, anchors), Tag: "hub"})
		g.Hubs = append(g.Hubs, "http://"+h+uri)
	}
}
