package checks

import (
	"fmt"
	"os"
	"path/filepath"
	"strings"
	"time"

	"github.com/internetarchive/Zeno/internal/verif/vc"
)

// C15 — outlinks and finish acks reach the queue intact, despite queue errors.
// HQ mode: the real pipeline with the real gocrawlhq client against the HQ double with a fault script.
// LQ mode: the real local queue (duplicates, hops, via).

func init() {
	register("C15", c15)
	registerChild("pipe-c15", c15Child)
}

type c15Scenario struct {
	Seed    int64      `json:"seed"`
	Index   int        `json:"index"`
	Cfg     pipeConfig `json:"cfg"`
	Faults  []hqFault  `json:"faults"`
	NPages  int        `json:"n_pages"`
	MaxHops int        `json:"max_hops"`
	// Outage scenarios fix how many deliveries are pending while the HQ refuses a call kind: Level1Total
	// = number of outlinks the level-0 pages carry together (nothing else can be discovered before an
	// add succeeds), Level0Count = number of seeds handed out (with MaxHops 0 nothing else is ever queued).
	Level1Total int `json:"level1_total,omitempty"`
	Level0Count int `json:"level0_count,omitempty"`
}

type c15Page struct {
	URL      string
	Hops     int
	Outlinks []string // texts planted on the page (absolute)
}

// c15Site builds a 3-level tree of pages: level-0 pages are handed out by the queue, their anchors are level 1, etc.
func c15Site(o *origin, seedv int64, idx, nPages, maxHops, level1Total, level0Count int) (level0 []string, pages map[string]*c15Page, assetsOdd []string) {
	rng := pipeRand(seedv, "c15site", idx)
	pages = map[string]*c15Page{}
	n := 0
	l1Left := level1Total
	var mk func(level int, onHost string) string
	mk = func(level int, onHost string) string {
		n++
		h := hostOf(9+n/250, 1+n%250, o.Port)
		if onHost != "" {
			h = onHost
		}
		uri := fmt.Sprintf("/l%d/p%d.html", level, n)
		if rng.Intn(3) == 0 {
			uri += fmt.Sprintf("?q=%d&lang=en", n)
		}
		u := "http://" + h + uri
		p := &c15Page{URL: u, Hops: level}
		pages[u] = p
		var anchors, assets []string
		anchorTexts := &anchors
		switch {
		case level == 0 && level1Total > 0:
			// outage scenarios count pending deliveries exactly: the children live on the parent's host and
			// are referenced by path, so each anchor yields one outlink (an absolute URL in a text/* body is
			// found a second time by the crawler's aggressive link regex)
			var texts []string
			for k := 0; k < 1+rng.Intn(3) && l1Left > 0; k++ {
				l1Left--
				cu := mk(level+1, h)
				anchors = append(anchors, cu)
				texts = append(texts, strings.TrimPrefix(cu, "http://"+h))
			}
			anchorTexts = &texts
		case level < maxHops+1:
			for k := 0; k < 1+rng.Intn(3) && len(pages) < nPages; k++ {
				anchors = append(anchors, mk(level+1, ""))
			}
		}
		p.Outlinks = anchors
		// assets: one plain, one whose query needs re-encoding (comma, tilde): the HQ seen-store round trip
		a1 := fmt.Sprintf("/as/%d.png", n)
		a2 := fmt.Sprintf("/as/%d.css?v=1,2&t=a~b", n)
		o.set(h, a1, &route{Status: 200, Headers: map[string]string{"Content-Type": "image/png"}, Body: append([]byte(nil), pngBytes...), Tag: "asset-plain"})
		o.set(h, a2, &route{Status: 200, Headers: map[string]string{"Content-Type": "text/css"}, Body: []byte("body{}"), Tag: "asset-odd-query"})
		assets = []string{a1, a2}
		assetsOdd = append(assetsOdd, "http://"+h+a2)
		o.set(h, uri, &route{Status: 200, Headers: map[string]string{"Content-Type": "text/html"}, Body: htmlPage("p", assets, *anchorTexts), Tag: fmt.Sprintf("page-l%d", level)})
		return u
	}
	switch {
	case level1Total > 0:
		for l1Left > 0 {
			level0 = append(level0, mk(0, ""))
		}
	case level0Count > 0:
		for len(level0) < level0Count {
			level0 = append(level0, mk(0, ""))
		}
	default:
		for len(pages) < nPages/3 || len(level0) < 3 {
			level0 = append(level0, mk(0, ""))
			if len(level0) > nPages {
				break
			}
		}
	}
	return
}

func c15Child(scPath string) int {
	var sc c15Scenario
	if err := readJSON(scPath, &sc); err != nil {
		return 2
	}
	dir := os.Getenv("VZ_CHILD_DIR")
	rep := newReport()
	defer rep.write(dir)
	pr := newPipeRun(dir, sc.Cfg)
	org, err := newOrigin(pr.nextSeq)
	if err != nil {
		return 2
	}
	pr.org = org
	level0, pages, oddAssets := c15Site(org, sc.Seed, sc.Index, sc.NPages, sc.MaxHops, sc.Level1Total, sc.Level0Count)
	var hq *fakeHQ
	var inputSeeds []string
	if sc.Cfg.UseHQ {
		hq, err = newFakeHQ(pr.nextSeq, func() { pr.lastActivity.Store(pr.nextSeq()) }, sc.Faults, sc.MaxHops)
		if err != nil {
			return 2
		}
		pr.Cfg.HQAddress = fmt.Sprintf("http://127.0.0.1:%d", hq.Port)
		for _, u := range level0 {
			hq.addSeed(u, "", "")
		}
		// URL texts the crawler cannot parse are finished without a fetch; they are handed out by id and
		// must be acknowledged by id like any other seed
		if sc.Index%2 == 0 {
			for _, bad := range []string{"no-scheme.example/page", "/relative/only", "http://%zz/x"} {
				hq.addSeed(bad, "", "")
			}
		}
	} else {
		// local queue: a hub (input seed, hops 0) links to the level-0 pages, twice each (duplicates must not be queued twice)
		hub := hostOf(9, 254, org.Port)
		org.set(hub, "/hub.html", &route{Status: 200, Headers: map[string]string{"Content-Type": "text/html"}, Body: htmlPage("hub", nil, append(append([]string{}, level0...), level0...)), Tag: "hub"})
		org.set(hub, "/hub2.html", &route{Status: 200, Headers: map[string]string{"Content-Type": "text/html"}, Body: htmlPage("hub2", nil, level0), Tag: "hub"})
		inputSeeds = []string{"http://" + hub + "/hub.html", "http://" + hub + "/hub2.html"}
	}
	if err := pr.applyConfig(inputSeeds); err != nil {
		return 2
	}
	pr.perturb, pr.perturbSeed = 1, vc.DeriveSeed(sc.Seed, "C15", "perturb", sc.Index)
	pr.installHooks(false)
	pr.start(false)
	verdict := pr.waitQuiescent(11*time.Second, 20*time.Second, 240*time.Second)
	rep.Evaluations = 1
	rep.Extra["verdict"] = verdict
	if verdict != "quiescent" {
		rep.inconclusive("no-quiescence:" + verdict)
	}
	evs := pr.eventsCopy()
	hopsOffset := 0
	if !sc.Cfg.UseHQ {
		hopsOffset = 1 // level-0 pages are outlinks of the hub: they arrive with hops 1
	}
	w := map[string]any{"cfg": sc.Cfg, "faults": sc.Faults}
	if sc.Cfg.UseHQ {
		calls, claimed, queued := hq.snapshot()
		okAdds := map[string][]hqURL{}
		handed := map[string]hqURL{}
		deletedOK := map[string]bool{}
		for _, c := range calls {
			rep.event("hq:"+c.Kind, 1)
			if c.Fault != "" {
				rep.event("hq-fault:"+c.Kind+":"+c.Fault, 1)
				rep.distinct("fault/" + c.Kind + "/" + c.Fault)
			}
			if !c.Success {
				continue
			}
			switch c.Kind {
			case "add":
				for _, u := range c.URLs {
					okAdds[u.Value] = append(okAdds[u.Value], u)
				}
			case "get":
				for _, u := range c.URLs {
					handed[u.ID] = u
				}
			case "delete":
				for _, u := range c.URLs {
					deletedOK[u.ID] = true
				}
			}
		}
		if verdict == "quiescent" {
			// every planted outlink of a page below the hop limit that was crawled must have been delivered intact
			crawled := map[string]bool{}
			for _, l := range org.snapshot() {
				if l.Completed && l.Status == 200 {
					crawled[l.URL] = true
				}
			}
			for _, p := range pages {
				if !crawled[p.URL] || p.Hops >= sc.MaxHops {
					continue
				}
				for _, out := range p.Outlinks {
					rep.event("outlinks_expected", 1)
					want := strings.Repeat("L", p.Hops+1)
					found := false
					var got []hqURL
					for _, u := range okAdds[out] {
						got = append(got, u)
						if u.Via == p.URL && u.Path == want {
							found = true
						}
					}
					rep.distinct(fmt.Sprintf("outlink/hops%d/delivered=%v", p.Hops, found))
					if !found {
						sig := "outlink-never-delivered"
						if len(got) > 0 {
							sig = "outlink-delivered-with-wrong-fields"
						}
						rep.violation(sig, fmt.Sprintf("outlink %s of page %s (hops %d) was not carried by any successful add with via=%s path=%s; successful adds with that value: %+v", out, p.URL, p.Hops, p.URL, want, got), w)
					}
				}
			}
			// the obligation is over the seeds Zeno actually received (hq.before_insert); the HQ double
			// does not claim URLs for a GET whose client has gone away during a stall (no crawler could
			// acknowledge those)
			received := map[string]string{}
			for _, e := range evs {
				if e.Point == "hq.before_insert" {
					received[e.ID] = strings.SplitN(e.URL, "\t", 2)[0]
				}
			}
			// ... and over the seeds a GET answered to a client that was still connected: a crawler that
			// discards part of an answer it received loses those seeds for good (they stay claimed)
			notInserted := map[string]bool{}
			for id, u := range handed {
				if _, ok := received[id]; !ok {
					rep.event("seeds_answered_but_never_inserted", 1)
					received[id] = u.Value
					notInserted[id] = true
				}
			}
			for id, u := range received {
				rep.event("seeds_handed_out", 1)
				if !deletedOK[id] {
					how := "was received from the HQ and inserted"
					if notInserted[id] {
						how = "was in a GET answer delivered to the connected client but never entered the reactor, and"
					}
					rep.violation("finish-ack-never-delivered", fmt.Sprintf("seed %s (%s) %s its id is in no successful DELETE (still claimed: %d, still queued: %d)", id, u, how, len(claimed), queued), w)
				}
			}
		}
		// hops survive the round trip: what the reactor received vs the path the HQ served
		for _, e := range evs {
			if e.Point == "hq.before_insert" {
				parts := strings.Split(e.URL, "\t")
				path := ""
				for _, p := range parts {
					if strings.HasPrefix(p, "path=") {
						path = strings.TrimPrefix(p, "path=")
					}
				}
				rep.event("round_trips", 1)
				if e.N != strings.Count(path, "L") {
					rep.violation("hops-lost-in-round-trip", fmt.Sprintf("seed %s served with path %q entered the reactor with hops %d", parts[0], path, e.N), w)
				}
				if pg := pages[parts[0]]; pg != nil && e.N != pg.Hops {
					rep.violation("hops-differ-from-depth", fmt.Sprintf("page %s is at link depth %d but entered the reactor with hops %d", parts[0], pg.Hops, e.N), w)
				}
			}
		}
		// C08 (HQ seen-store): an asset the HQ reported as unseen must be fetched
		unseen := map[string]bool{}
		asked := map[string]bool{}
		// keyed by scheme://host/path: whichever spelling of the query the crawler sends, the HQ's answer
		// is about that asset (every generated asset has its own path)
		noQuery := func(s string) string { return strings.SplitN(s, "?", 2)[0] }
		for _, c := range calls {
			for _, u := range c.URLs {
				if c.Kind == "seencheck" {
					asked[noQuery(u.Value)] = true
				}
				if c.Kind == "seencheck-unseen" {
					unseen[noQuery(u.Value)] = true
				}
			}
		}
		requested := map[string]bool{}
		for _, l := range org.snapshot() {
			requested[l.URL] = true
		}
		var c08 []vrec
		for _, a := range oddAssets {
			if asked[noQuery(a)] && unseen[noQuery(a)] && verdict == "quiescent" {
				rep.event("hq_unseen_assets_with_odd_query", 1)
				// the origin sees the request with the query as sent on the wire; compare by path
				found := false
				for u := range requested {
					if strings.HasPrefix(u, strings.SplitN(a, "?", 2)[0]) {
						found = true
					}
				}
				if !found {
					c08 = append(c08, vrec{"hq/skipped-although-hq-said-unseen", fmt.Sprintf("asset %s was reported unseen by the crawl HQ but was skipped as seen and never fetched", a), nil})
				}
			}
		}
		rep.Extra["c08"] = c08
	} else {
		// LQ mode: rows as consumed (value, via, hops), no URL consumed twice, every consumed row finished and deleted
		consumed := map[string]int{}
		for _, e := range evs {
			if e.Point != "lq.before_insert" {
				continue
			}
			parts := strings.SplitN(e.URL, "\tvia=", 2)
			val, via := parts[0], ""
			if len(parts) > 1 {
				via = parts[1]
			}
			consumed[val]++
			rep.event("lq_rows_consumed", 1)
			if pg := pages[val]; pg != nil {
				if e.N != pg.Hops+hopsOffset {
					rep.violation("lq-wrong-hops", fmt.Sprintf("queue row %s has hops %d, expected %d", val, e.N, pg.Hops+hopsOffset), w)
				}
				okVia := false
				for _, parent := range pages {
					for _, o := range parent.Outlinks {
						if o == val && parent.URL == via {
							okVia = true
						}
					}
				}
				if pg.Hops == 0 && strings.Contains(via, "/hub") {
					okVia = true
				}
				if !okVia {
					rep.violation("lq-wrong-via", fmt.Sprintf("queue row %s has via %q which is not a page that links to it", val, via), w)
				}
				rep.distinct(fmt.Sprintf("lq-row/hops%d", e.N))
			}
		}
		for v, n := range consumed {
			if n > 1 {
				rep.violation("lq-url-queued-twice", fmt.Sprintf("%s was handed out by the local queue %d times", v, n), w)
			}
		}
		if verdict == "quiescent" {
			crawled := map[string]bool{}
			for _, l := range org.snapshot() {
				if l.Completed && l.Status == 200 {
					crawled[l.URL] = true
				}
			}
			for _, p := range pages {
				if !crawled[p.URL] || p.Hops+hopsOffset >= sc.MaxHops {
					continue
				}
				for _, out := range p.Outlinks {
					rep.event("outlinks_expected", 1)
					if consumed[out] == 0 {
						rep.violation("lq-outlink-never-queued", fmt.Sprintf("outlink %s of page %s (hops %d) never came out of the local queue", out, p.URL, p.Hops+hopsOffset), w)
					}
				}
			}
		}
	}
	rep.event("origin_requests", len(org.snapshot()))
	done := make(chan struct{})
	go func() { pr.stop(); close(done) }()
	select {
	case <-done:
	case <-time.After(60 * time.Second):
	}
	if !sc.Cfg.UseHQ && verdict == "quiescent" {
		rows, err := readLQ(filepath.Join(dir, "jobs", "j", "lq.db"))
		if err == nil {
			for _, row := range rows {
				if pages[row.Value] != nil {
					rep.violation("lq-finished-row-survives", fmt.Sprintf("row %s (%s, %s) is still in the queue after the crawl drained", row.ID, row.Value, row.Status), w)
				}
			}
			rep.event("lq_rows_left", len(rows))
		}
	}
	return 0
}

func c15(r *vc.Run) int {
	n := r.N(16, 160)
	var scs []c15Scenario
	for i := 0; i < n; i++ {
		rng := r.Rand("plan", i)
		useHQ := i%4 != 3
		sc := c15Scenario{Seed: r.Seed, Index: i, NPages: 14 + rng.Intn(14), MaxHops: 2,
			Cfg: pipeConfig{Workers: 1 + rng.Intn(4), MaxConcurrentAssets: 2, MaxHops: 2, MaxRetry: 0, MaxRedirect: 5, WARCPoolSize: 1, UseHQ: useHQ, HQBatchSize: []int{2, 5, 100}[i%3], HQBatchConcurrency: 1 + (i/3)%2, DisableSeencheck: !useHQ && i%8 == 3}}
		if useHQ {
			kinds := []string{"add", "delete", "get"}
			whats := []string{"500", "502", "503", "reset", "stall"}
			nf := rng.Intn(5)
			if i == 0 {
				nf = 0
			}
			for f := 0; f < nf; f++ {
				sc.Faults = append(sc.Faults, hqFault{Kind: kinds[rng.Intn(3)], N: 1 + rng.Intn(4), What: whats[rng.Intn(len(whats))]})
			}
			if rng.Intn(4) == 0 { // a streak of failures on one call kind
				k := kinds[rng.Intn(2)]
				for s := 1; s <= 3; s++ {
					sc.Faults = append(sc.Faults, hqFault{Kind: k, N: s, What: whats[rng.Intn(4)]})
				}
			}
		}
		scs = append(scs, sc)
	}
	// outages: the HQ refuses every add (resp. delete) for ~22 s of sender back-off while exactly P
	// deliveries are pending, P enumerated over the fill levels of the producer / finisher pipeline
	// (sender + dispatcher + channel + the receiver's partial batch = 3 full batches and a rest)
	outage := func(kind string, n int) []hqFault {
		var fs []hqFault
		for s := 1; s <= n; s++ {
			fs = append(fs, hqFault{Kind: kind, N: s, What: []string{"503", "reset", "500"}[s%3]})
		}
		return fs
	}
	type lvl struct{ bs, p int }
	var lvls []lvl
	if r.Thorough() {
		for p := 1; p <= 9; p++ {
			lvls = append(lvls, lvl{2, p})
		}
		for p := 1; p <= 21; p++ {
			lvls = append(lvls, lvl{5, p})
		}
	} else {
		for _, p := range []int{1, 3, 5, 7, 9} {
			lvls = append(lvls, lvl{2, p})
		}
	}
	for _, l := range lvls {
		base := pipeConfig{Workers: 1 + len(scs)%4, MaxConcurrentAssets: 2, MaxRetry: 0, MaxRedirect: 5, WARCPoolSize: 1, UseHQ: true, HQBatchSize: l.bs, HQBatchConcurrency: 1}
		a := c15Scenario{Seed: r.Seed, Index: len(scs), NPages: 1000, MaxHops: 2, Cfg: base, Faults: outage("add", 6), Level1Total: l.p}
		a.Cfg.MaxHops = 2
		scs = append(scs, a)
		d := c15Scenario{Seed: r.Seed, Index: len(scs), NPages: 1000, MaxHops: 0, Cfg: base, Faults: outage("delete", 6), Level0Count: l.p}
		d.Cfg.MaxHops = 0
		scs = append(scs, d)
	}
	m := newMerged()
	parallel(len(scs), 14, func(i int) {
		dir := filepath.Join(r.Scratch, fmt.Sprintf("c15-%d", i))
		res := runChild(os.Getenv("VZ_BIN"), "pipe-c15", scs[i], dir, 7*time.Minute)
		mode := "lq"
		if scs[i].Cfg.UseHQ {
			mode = "hq"
		}
		absorb(r, m, res, fmt.Sprintf("run%d[%s faults=%v batch=%d get-concurrency=%d]", i, mode, scs[i].Faults, scs[i].Cfg.HQBatchSize, scs[i].Cfg.HQBatchConcurrency), scs[i], true)
		os.RemoveAll(dir)
	})
	cov := map[string]any{
		"evaluations":         m.Events["outlinks_expected"] + m.Events["seeds_handed_out"] + m.Events["lq_rows_consumed"],
		"distinct_nontrivial": len(m.Distinct),
		"rule":                "one evaluation = one delivery obligation (a planted outlink of a crawled page below the hop limit, a seed handed out by the queue that must be acknowledged, a queue row that must carry value/via/hops) in a full-pipeline run; HQ runs use the real gocrawlhq client against the HQ double with a seeded fault script (5xx, connection reset, 6 s stall on the k-th add/delete/get, failure streaks) batch size in {2,5,100} and get concurrency in {1,2}; distinct = distinct (fault kind x call kind) and (hops, delivered) classes",
		"samples":             []any{scs[1], scs[min(3, len(scs)-1)]},
		"events":              m.Events,
		"pipeline_runs":       m.Children,
		"classes":             m.Distinct,
	}
	return r.Finish("fault_enumeration", cov, []string{
		"a delivery counts only if the HQ double answered it successfully (201 / 204); duplicates after a timed-out request are allowed",
		"'never dropped' is decided at structural quiescence with the fault script exhausted (11 s without a hook event, HQ call or open origin request)",
		"the HQ double implements the endpoints and status codes the pinned gocrawlhq client expects",
	}, 6)
}
