package checks

import (
	"fmt"
	"math/rand"
	"net/http"
	"os"
	"path/filepath"
	"runtime"
	"strings"
	"sync"
	"sync/atomic"
	"time"

	"github.com/internetarchive/Zeno/internal/pkg/config"
	"github.com/internetarchive/Zeno/internal/pkg/controler/pause"
	"github.com/internetarchive/Zeno/internal/pkg/finisher"
	"github.com/internetarchive/Zeno/internal/pkg/postprocessor"
	"github.com/internetarchive/Zeno/internal/pkg/preprocessor"
	"github.com/internetarchive/Zeno/internal/pkg/verifhook"
	"github.com/internetarchive/Zeno/internal/verif/vc"
	"github.com/internetarchive/Zeno/pkg/models"
)

// C14 (stage level) — pause stops all stages, resume wakes them all, the protocol never deadlocks.
//
// The REAL preprocessor, postprocessor and finisher stages are started standalone (their workers are
// the subscribers of the shared pause manager). Controllers invoke pause.Pause / pause.Resume /
// stage Stop in every order (enumerated sequences) and in random fully concurrent scripts; work is fed
// while paused. Oracle: no panic; every invoked call has returned when the system is quiescent
// (stuck = no hook event, no return over three samples, outstanding call parked: goroutine dump is the
// witness); no worker takes work between its pause acknowledgement and its resume; after a Resume
// that followed a Pause returned, every acknowledged worker has resumed.

func init() {
	register("C14", c14)
	registerChild("c14", c14Child)
}

type c14Scenario struct {
	Seq        []string `json:"seq"` // P R S1 S2 S3 F
	Workers    int      `json:"workers"`
	Concurrent bool     `json:"concurrent"`
	Seed       int64    `json:"seed"`
	Index      int      `json:"index"`
}

type c14Event struct {
	Seq   int64
	Point string
	ID    string
	URL   string
}

func c14Child(scPath string) int {
	var sc c14Scenario
	if err := readJSON(scPath, &sc); err != nil {
		return 2
	}
	dir := os.Getenv("VZ_CHILD_DIR")
	rep := newReport()
	zenoConfig(dir, false, func(c *config.Config) {
		c.WorkersCount = sc.Workers
		c.MaxHops = 1
	})
	var evMu sync.Mutex
	var events []c14Event
	var evCount atomic.Int64
	rng := rand.New(rand.NewSource(vc.DeriveSeed(sc.Seed, "C14", "perturb", sc.Index)))
	var rngMu sync.Mutex
	verifhook.SetHandler(func(point, id, url string, n int, item any) {
		evMu.Lock()
		events = append(events, c14Event{evCount.Add(1), point, id, url})
		evMu.Unlock()
		if sc.Concurrent {
			rngMu.Lock()
			x := rng.Intn(6)
			rngMu.Unlock()
			if x == 0 {
				runtime.Gosched()
			} else if x == 1 {
				time.Sleep(time.Duration(50+x*130) * time.Microsecond)
			}
		}
	})
	h, err := startStages(true)
	if err != nil {
		rep.violation("harness/start", err.Error(), nil)
		rep.write(dir)
		return 0
	}
	finIn := make(chan *models.Item)
	if err := finisher.Start(finIn, make(chan *models.Item, 16), make(chan *models.Item, 16)); err != nil {
		rep.violation("harness/start-finisher", err.Error(), nil)
	}
	// the workers subscribe from their own goroutines: wait until every one of them has
	for i := 0; i < 2000 && pause.VerifSubscribers() < 3*sc.Workers; i++ {
		time.Sleep(time.Millisecond)
	}
	subscribers := pause.VerifSubscribers()
	if subscribers != 3*sc.Workers {
		rep.violation("harness/subscribers", fmt.Sprintf("%d subscribers for %d workers per stage", subscribers, sc.Workers), nil)
	}

	type call struct {
		name     string
		idx      int
		returned atomic.Bool
		callSeq  int64
		retSeq   int64
	}
	var calls []*call
	var returnedCount atomic.Int64
	fed, nPause := 0, 0
	var crawls sync.WaitGroup
	invoke := func(i int, op string) {
		c := &call{name: op, idx: i, callSeq: evCount.Add(1)}
		calls = append(calls, c)
		run := func(f func()) {
			go func() {
				f()
				c.retSeq = evCount.Add(1)
				c.returned.Store(true)
				returnedCount.Add(1)
			}()
		}
		switch op {
		case "P":
			// independent controllers pause with their own reasons (operator, disk watchdog, WARC-queue watchdog)
			nPause++
			msg := []string{"Paused", "Not enough disk space!!!", "WARC writing queue exceeded the worker count"}[nPause%3]
			if sc.Concurrent {
				rngMu.Lock()
				msg = []string{"Paused", "Not enough disk space!!!", "Paused"}[rng.Intn(3)]
				rngMu.Unlock()
			}
			run(func() { pause.Pause(msg) })
		case "R":
			run(func() { pause.Resume() })
		case "S1":
			run(func() { preprocessor.Stop() })
		case "S2":
			run(func() { postprocessor.Stop() })
		case "S3":
			run(func() { finisher.Stop() })
		case "F":
			// feed one seed through pre -> post (fabricated fetch); it may legitimately wait while paused
			fed++
			seed, _ := newSeed(fmt.Sprintf("f%d", fed), fmt.Sprintf("https://feed.example/p%d.html", fed), "", 0)
			c.returned.Store(true) // feeding is not a call of the protocol: nothing to wait for
			c.retSeq = c.callSeq
			returnedCount.Add(1)
			crawls.Add(1)
			go func() {
				defer crawls.Done()
				h.crawl(seed, func(it *models.Item, wire string) *fakeResp {
					return &fakeResp{Status: 200, Header: http.Header{"Content-Type": {"text/html"}}, Body: []byte("<html><body><a href='/x'>x</a></body></html>")}
				}, 3)
			}()
		}
	}
	// quiet waits until nothing moves: no hook event and no return for `window`, up to max
	quiet := func(window, max time.Duration) {
		deadline := time.Now().Add(max)
		lastE, lastR := evCount.Load(), returnedCount.Load()
		stable := time.Now()
		for time.Now().Before(deadline) {
			time.Sleep(2 * time.Millisecond)
			e, r := evCount.Load(), returnedCount.Load()
			if e != lastE || r != lastR {
				lastE, lastR, stable = e, r, time.Now()
				continue
			}
			if time.Since(stable) >= window {
				return
			}
		}
	}
	if sc.Concurrent {
		var wg sync.WaitGroup
		for i, op := range sc.Seq {
			invoke(i, op)
			rngMu.Lock()
			d := rng.Intn(1200)
			rngMu.Unlock()
			if d < 400 {
				time.Sleep(time.Duration(d) * time.Microsecond)
			}
		}
		wg.Wait()
	} else {
		for i, op := range sc.Seq {
			invoke(i, op)
			quiet(15*time.Millisecond, 400*time.Millisecond)
		}
	}
	// ---- verdict at structural quiescence ----
	quiet(60*time.Millisecond, 5*time.Second)
	countOutstanding := func() (l []string) {
		for _, c := range calls {
			if !c.returned.Load() {
				l = append(l, fmt.Sprintf("#%d %s", c.idx, c.name))
			}
		}
		return
	}
	still := true
	if len(countOutstanding()) > 0 {
		// someone has not returned: decide "blocked forever" on structural quiescence over three samples
		quiet(300*time.Millisecond, 5*time.Second)
		s1 := [2]int64{evCount.Load(), returnedCount.Load()}
		time.Sleep(300 * time.Millisecond)
		s2 := [2]int64{evCount.Load(), returnedCount.Load()}
		time.Sleep(300 * time.Millisecond)
		s3 := [2]int64{evCount.Load(), returnedCount.Load()}
		still = s1 == s2 && s2 == s3
	}
	outstanding := countOutstanding()
	evMu.Lock()
	evs := append([]c14Event(nil), events...)
	evMu.Unlock()
	seqStr := strings.Join(sc.Seq, " ")
	if len(outstanding) > 0 {
		if still {
			buf := make([]byte, 1<<20)
			buf = buf[:runtime.Stack(buf, true)]
			// which call sites are parked
			where := map[string]bool{}
			for _, g := range strings.Split(string(buf), "\n\n") {
				for _, fn := range []string{"pause.Resume", "preprocessor.Stop", "postprocessor.Stop", "finisher.Stop", "pause.Pause"} {
					if strings.Contains(g, "/"+fn+"(") {
						where[fn] = true
					}
				}
			}
			var w []string
			for k := range where {
				w = append(w, k)
			}
			sortStrings(w)
			pausedNow := pause.IsPaused()
			sig := "stuck/" + strings.Join(w, "+")
			if pausedNow {
				sig += "/while-paused"
			} else {
				sig += "/not-paused"
			}
			rep.violation(sig, fmt.Sprintf("sequence [%s] (workers=%d, concurrent=%v): calls %v never returned and the system is quiescent (no hook event, no return over 3 samples)", seqStr, sc.Workers, sc.Concurrent, outstanding),
				map[string]any{"sequence": sc.Seq, "outstanding": outstanding, "goroutines": c14Relevant(string(buf))})
		} else {
			rep.inconclusive("still-moving-at-watchdog")
		}
	}
	// no work between ack and resumed, per worker
	acked := map[string]bool{}
	everAcked := map[string]bool{}
	for _, e := range evs {
		switch e.Point {
		case "pause.ack":
			acked[e.ID] = true
			everAcked[e.ID] = true
		case "pause.resumed":
			acked[e.ID] = false
		case "pre.recv", "post.recv", "fin.recv", "arch.recv":
			if acked[e.URL] {
				rep.violation("work-while-paused", fmt.Sprintf("sequence [%s]: worker %s took seed %s between its pause acknowledgement and its resume", seqStr, e.URL, e.ID), map[string]any{"events": c14Fmt(evs)})
			}
		}
	}
	// lost wake-up: a worker whose LAST event is a pause acknowledgement is still blocked; that is fine if nobody asked
	// for a resume since, but a Resume invoked after that acknowledgement (it must have seen the pause) that returned
	// without waking the worker is a violation. (A Resume overlapping the Pause may be ordered before it.)
	lastAck := map[string]int64{}
	for _, e := range evs {
		switch e.Point {
		case "pause.ack":
			lastAck[e.ID] = e.Seq
		case "pause.resumed":
			delete(lastAck, e.ID)
		}
	}
	for w, ackSeq := range lastAck {
		stageStopped := false
		for _, op := range sc.Seq {
			if (op == "S1" && strings.HasPrefix(w, "pre.")) || (op == "S2" && strings.HasPrefix(w, "post.")) || (op == "S3" && strings.HasPrefix(w, "fin.")) {
				stageStopped = true // a stopping worker leaves instead of resuming
			}
		}
		if stageStopped || !still {
			continue
		}
		for _, c := range calls {
			if c.name == "R" && c.returned.Load() && c.callSeq > ackSeq {
				rep.violation("resume-left-worker-blocked", fmt.Sprintf("sequence [%s]: Resume #%d was invoked after worker %s had acknowledged the pause and returned, but the worker was never resumed", seqStr, c.idx, w), map[string]any{"events": c14Fmt(evs)})
				break
			}
		}
	}
	// a worker parked in its pause acknowledgement while nothing is paused any more
	if still && len(outstanding) == 0 && !pause.IsPaused() {
		for w := range lastAck {
			stageStopped := false
			for _, op := range sc.Seq {
				if (op == "S1" && strings.HasPrefix(w, "pre.")) || (op == "S2" && strings.HasPrefix(w, "post.")) || (op == "S3" && strings.HasPrefix(w, "fin.")) {
					stageStopped = true
				}
			}
			if !stageStopped {
				// re-sample: the flag is cleared a moment after the last worker was received from
				time.Sleep(200 * time.Millisecond)
				evMu.Lock()
				resumedSince := false
				for _, e := range events {
					if e.Point == "pause.resumed" && e.ID == w && e.Seq > lastAck[w] {
						resumedSince = true
					}
				}
				evMu.Unlock()
				if !resumedSince && !pause.IsPaused() {
					rep.violation("worker-blocked-while-not-paused", fmt.Sprintf("sequence [%s]: worker %s sits in a pause acknowledgement although the pipeline is not paused and no call is outstanding: it will never take work again", seqStr, w), map[string]any{"events": c14Fmt(evs)})
					break
				}
			}
		}
	}
	rep.Evaluations = 1
	rep.event("hook_events", len(evs))
	rep.event("subscribers", subscribers)
	rep.event("acks", len(everAcked))
	if len(everAcked) > 0 {
		rep.distinct("acked")
	}
	rep.Extra["sequence"] = seqStr
	rep.write(dir)
	os.Exit(0) // stages may be deliberately left paused / stopping
	return 0
}

func sortStrings(s []string) {
	for i := range s {
		for j := i + 1; j < len(s); j++ {
			if s[j] < s[i] {
				s[i], s[j] = s[j], s[i]
			}
		}
	}
}

func c14Fmt(evs []c14Event) []string {
	var l []string
	for _, e := range evs {
		l = append(l, fmt.Sprintf("%d %s %s %s", e.Seq, e.Point, e.ID, e.URL))
	}
	if len(l) > 120 {
		l = l[len(l)-120:]
	}
	return l
}

func c14Relevant(dump string) []string {
	var out []string
	for _, g := range strings.Split(dump, "\n\n") {
		if strings.Contains(g, "pause.") || strings.Contains(g, ".Stop(") || strings.Contains(g, ").worker(") {
			lines := strings.Split(g, "\n")
			if len(lines) > 9 {
				lines = lines[:9]
			}
			out = append(out, strings.Join(lines, "\n"))
		}
	}
	if len(out) > 14 {
		out = out[:14]
	}
	return out
}

// c14Sequences enumerates all sequences up to maxLen over the alphabet, each stop letter at most once.
func c14Sequences(maxLen int) [][]string {
	alpha := []string{"P", "R", "F", "S1", "S2", "S3"}
	var out [][]string
	var rec func(cur []string)
	rec = func(cur []string) {
		if len(cur) > 0 {
			out = append(out, append([]string(nil), cur...))
		}
		if len(cur) == maxLen {
			return
		}
		for _, a := range alpha {
			if strings.HasPrefix(a, "S") {
				dup := false
				for _, c := range cur {
					if c == a {
						dup = true
					}
				}
				if dup {
					continue
				}
			}
			// feeding after the first stage is stopped only blocks the harness's own fabricated crawl
			if a == "F" {
				stopped := false
				for _, c := range cur {
					if strings.HasPrefix(c, "S") {
						stopped = true
					}
				}
				if stopped {
					continue
				}
			}
			rec(append(cur, a))
		}
	}
	rec(nil)
	return out
}

func c14(r *vc.Run) int {
	seqs := c14Sequences(r.N(4, 5))
	nRandom := r.N(300, 6000)
	type job struct {
		sc   c14Scenario
		race bool
	}
	var jobs []job
	for i, s := range seqs {
		jobs = append(jobs, job{sc: c14Scenario{Seq: s, Workers: 1 + i%2, Seed: r.Seed, Index: i}})
	}
	for i := 0; i < nRandom; i++ {
		rng := r.Rand("random-script", i)
		n := 3 + rng.Intn(8)
		var s []string
		stops := map[string]bool{}
		for k := 0; k < n; k++ {
			a := []string{"P", "R", "P", "R", "F", "F", "S1", "S2", "S3"}[rng.Intn(9)]
			if strings.HasPrefix(a, "S") {
				if stops[a] || k < n/2 {
					a = "P"
				}
				stops[a] = true
			}
			s = append(s, a)
		}
		jobs = append(jobs, job{sc: c14Scenario{Seq: s, Workers: 1 + rng.Intn(2), Concurrent: true, Seed: r.Seed, Index: len(seqs) + i}, race: i%5 == 0})
	}
	m := newMerged()
	shapes := vc.NewDistinct()
	parallel(len(jobs), 15, func(i int) {
		j := jobs[i]
		bin := os.Getenv("VZ_BIN")
		if j.race && os.Getenv("VZ_BIN_RACE") != "" {
			bin = os.Getenv("VZ_BIN_RACE")
		}
		dir := filepath.Join(r.Scratch, fmt.Sprintf("c14-%d", i))
		res := runChild(bin, "c14", j.sc, dir, 60*time.Second)
		rep := absorb(r, m, res, fmt.Sprintf("seq[%s]", strings.Join(j.sc.Seq, " ")), j.sc, true)
		if rep != nil && rep.Events["acks"] > 0 {
			shapes.Add(fmt.Sprintf("%v/w%d/%s", j.sc.Concurrent, j.sc.Workers, strings.Join(j.sc.Seq, "")))
		}
		os.RemoveAll(dir)
	})
	// pipeline level: stages connected as in production, pause landing in the middle of hand-overs
	c14Pipe(r, m, r.Scratch, r.Seed, r.N(7, 56), shapes)
	// the disk watchdog as the pausing controller (real WatchDiskSpace, three pause/resume cycles), then
	// shutdown while it still holds the pause and the disk is still low
	for k := 0; k < r.N(1, 3); k++ {
		res := runChild(os.Getenv("VZ_BIN"), "c18-watch", map[string]any{"stop_while_low": true}, filepath.Join(r.Scratch, fmt.Sprintf("c14-watch-%d", k)), 4*time.Minute)
		if rep := absorb(r, m, res, "disk-watchdog", nil, true); rep != nil {
			for d := range rep.Distinct {
				shapes.Add("watchdog/" + d)
			}
		}
	}
	for s, n := range m.Races {
		if s == "harness-only" {
			r.Note("race report x%d with harness frames only", n)
			continue
		}
		r.Note("race report x%d: %s", n, s)
	}
	cov := map[string]any{
		"evaluations":          m.Evaluations,
		"distinct_nontrivial":  shapes.Len(),
		"rule":                 fmt.Sprintf("every sequence up to length %d over {Pause, Resume, Feed, Stop-preprocessor, Stop-postprocessor, Stop-finisher} (stops at most once each, invocations issued one by one at quiescence, each in its own goroutine) + seeded random fully concurrent scripts with hook-point perturbation, one child process each, on the real preprocessor/postprocessor/finisher stages; distinct = distinct scripts in which at least one real worker acknowledged a pause; plus full-pipeline runs (stage channels of capacity --workers) in which a pause is fired by a trigger on a pipeline event (hub page with more outlinks than the channel buffers entering the postprocessor, k-th fetch, hand-over), Resume() is called after m acknowledgements, 1-2 cycles: every call must return and the run must drain", r.N(4, 5)),
		"samples":              []any{map[string]any{"enumerated_sequences": len(seqs), "first": seqs[:min(8, len(seqs))]}, map[string]any{"random_script_example": jobs[len(seqs)].sc.Seq}},
		"events":               m.Events,
		"enumerated_sequences": len(seqs),
		"random_scripts":       nRandom,
		"exhaustive":           false,
	}
	return r.Finish("exploration", cov, []string{
		"the enumerated and random scripts run at stage level; the archiver stage and back-pressure between stages are exercised by the pipeline-level runs (here and in C03's paused moments)",
		"'blocked forever' = outstanding call while no hook event and no return happened over three samples 300 ms apart; the goroutine dump is the witness",
		"the order of invocations is enumerated, the interleaving inside the stages is sampled",
	}, 50)
}
