package checks

import (
	"bytes"
	"fmt"
	"io"
	"net/http"
	"os"
	"path/filepath"
	"sync"

	"github.com/internetarchive/Zeno/internal/pkg/archiver"
	"github.com/internetarchive/Zeno/internal/pkg/config"
	"github.com/internetarchive/Zeno/internal/pkg/postprocessor"
	"github.com/internetarchive/Zeno/internal/pkg/postprocessor/domainscrawl"
	"github.com/internetarchive/Zeno/internal/pkg/preprocessor"
	"github.com/internetarchive/Zeno/internal/pkg/preprocessor/seencheck"
	"github.com/internetarchive/Zeno/pkg/models"
)

// Stage-level harness: the REAL preprocessor and postprocessor stages (their worker goroutines,
// pause subscription, global configuration) run on harness-owned channels; the harness plays reactor,
// archiver (fabricated fetch, but the real archiver.ProcessBody) and finisher. One set of stages per process.

type fakeResp struct {
	Status int
	Header http.Header
	Body   []byte
	Fail   bool // transport failure / retries exhausted: the archiver would mark the item failed
}

type fetchFn func(it *models.Item, wireURL string) *fakeResp

type reqRec struct {
	URL    string `json:"url"`
	ItemID string `json:"item"`
	Depth  int64  `json:"depth"`
	Pass   int    `json:"pass"`
	Hops   int    `json:"hops"`
}

type crawlResult struct {
	Requests []reqRec
	Outlinks []*models.Item
	Passes   int
	Finished bool
	Seed     *models.Item
	Err      string
}

type stageHarness struct {
	preIn, preOut, postIn, postOut chan *models.Item
	// onPre, if set, is called after every preprocessor pass with stamps taken from stamp() before the
	// seed was handed to the stage and after it came back.
	onPre func(pass int, seed *models.Item, before, after int64)
	stamp func() int64
	// onPost, if set, is called after every postprocessor pass (new fresh children carry their raw text)
	onPost func(seed *models.Item)

	mu       sync.Mutex
	preWait  map[string]chan *models.Item
	postWait map[string]chan *models.Item
	outlinks []*models.Item
	tempDir  string
}

// startStages starts the real stages. cfg mutations must be done before (zenoConfig).
func startStages(useSeencheck bool) (*stageHarness, error) {
	c := config.Get()
	if err := config.GenerateCrawlConfig(); err != nil {
		return nil, err
	}
	os.MkdirAll(c.JobPath, 0o755)
	os.MkdirAll(c.WARCTempDir, 0o755)
	if useSeencheck && !c.UseHQ {
		if err := seencheck.Start(c.JobPath); err != nil {
			return nil, err
		}
	}
	n := c.WorkersCount
	h := &stageHarness{
		preIn: make(chan *models.Item, n), preOut: make(chan *models.Item, n),
		postIn: make(chan *models.Item, n), postOut: make(chan *models.Item, n),
		preWait: map[string]chan *models.Item{}, postWait: map[string]chan *models.Item{},
		tempDir: c.WARCTempDir,
	}
	if err := preprocessor.Start(h.preIn, h.preOut); err != nil {
		return nil, err
	}
	if err := postprocessor.Start(h.postIn, h.postOut); err != nil {
		return nil, err
	}
	go h.route(h.preOut, h.preWait, false)
	go h.route(h.postOut, h.postWait, true)
	return h, nil
}

func (h *stageHarness) route(ch chan *models.Item, wait map[string]chan *models.Item, collectOutlinks bool) {
	for it := range ch {
		h.mu.Lock()
		w, ok := wait[it.GetID()]
		if !ok && collectOutlinks {
			h.outlinks = append(h.outlinks, it)
		}
		h.mu.Unlock()
		if ok {
			w <- it
		}
	}
}

func (h *stageHarness) stop() {
	preprocessor.Stop()
	postprocessor.Stop()
}

// takeOutlinks returns and clears the outlink items produced so far whose via is in vias (nil = all).
func (h *stageHarness) takeOutlinks(vias map[string]bool) []*models.Item {
	h.mu.Lock()
	defer h.mu.Unlock()
	var mine, rest []*models.Item
	for _, o := range h.outlinks {
		if vias == nil || vias[o.GetSeedVia()] {
			mine = append(mine, o)
		} else {
			rest = append(rest, o)
		}
	}
	h.outlinks = rest
	return mine
}

// newSeed builds a seed item the way the queue consumers do.
func newSeed(id, raw, via string, hops int) (*models.Item, error) {
	u := &models.URL{Raw: raw, Hops: hops}
	if err := u.Parse(); err != nil {
		return nil, err
	}
	it := models.NewItem(id, u, via)
	it.SetSource(models.ItemSourceQueue)
	return it, nil
}

// crawl pushes one seed through pre -> (fabricated archive) -> post -> finisher logic until complete.
func (h *stageHarness) crawl(seed *models.Item, fetch fetchFn, maxPasses int) *crawlResult {
	res := &crawlResult{Seed: seed}
	pre := make(chan *models.Item, 1)
	post := make(chan *models.Item, 1)
	h.mu.Lock()
	h.preWait[seed.GetID()] = pre
	h.postWait[seed.GetID()] = post
	h.mu.Unlock()
	defer func() {
		h.mu.Lock()
		delete(h.preWait, seed.GetID())
		delete(h.postWait, seed.GetID())
		h.mu.Unlock()
	}()
	vias := map[string]bool{}
	for pass := 0; pass < maxPasses; pass++ {
		res.Passes = pass + 1
		var before int64
		if h.stamp != nil {
			before = h.stamp()
		}
		h.preIn <- seed
		<-pre
		if h.onPre != nil {
			h.onPre(pass, seed, before, h.stamp())
		}
		// ---- archiver (mirrors archiver.worker/archive; the fetch is fabricated) ----
		if st := seed.GetStatus(); st == models.ItemPreProcessed || st == models.ItemGotRedirected || st == models.ItemGotChildren {
			items, err := seed.GetNodesAtLevel(seed.GetMaxDepth())
			if err != nil {
				res.Err = err.Error()
				return res
			}
			for _, it := range items {
				if it.GetStatus() != models.ItemPreProcessed {
					continue
				}
				req := it.GetURL().GetRequest()
				if req == nil {
					res.Err = "request is nil for a preprocessed item"
					return res
				}
				wire := req.URL.String()
				res.Requests = append(res.Requests, reqRec{URL: wire, ItemID: it.GetID(), Depth: it.GetDepth(), Pass: pass, Hops: it.GetURL().GetHops()})
				fr := fetch(it, wire)
				if fr == nil || fr.Fail {
					it.SetStatus(models.ItemFailed)
					continue
				}
				hdr := fr.Header
				if hdr == nil {
					hdr = http.Header{}
				}
				resp := &http.Response{StatusCode: fr.Status, Status: fmt.Sprintf("%d %s", fr.Status, http.StatusText(fr.Status)), Header: hdr,
					Body: io.NopCloser(bytes.NewReader(fr.Body)), Request: req, ContentLength: int64(len(fr.Body)), Proto: "HTTP/1.1", ProtoMajor: 1, ProtoMinor: 1}
				it.GetURL().SetResponse(resp)
				c := config.Get()
				if err := archiver.ProcessBody(it.GetURL(), c.DisableAssetsCapture, domainscrawl.Enabled(), c.MaxHops, c.WARCTempDir); err != nil {
					it.SetStatus(models.ItemFailed)
					continue
				}
				it.SetStatus(models.ItemArchived)
			}
		}
		seed.Traverse(func(it *models.Item) {
			if it.GetURL() != nil && it.GetURL().GetParsed() != nil {
				vias[it.GetURL().String()] = true
			}
		})
		// ---- postprocessor ----
		h.postIn <- seed
		<-post
		if h.onPost != nil {
			h.onPost(seed)
		}
		res.Outlinks = append(res.Outlinks, h.takeOutlinks(vias)...)
		// ---- finisher ----
		if err := seed.CheckConsistency(); err != nil {
			res.Err = "finisher consistency: " + err.Error()
			return res
		}
		if seed.CompleteAndCheck() {
			res.Finished = true
			return res
		}
	}
	return res
}

// tempFiles lists files left in the WARC temp dir (spooled bodies).
func (h *stageHarness) tempFiles() []string {
	m, _ := filepath.Glob(filepath.Join(h.tempDir, "*"))
	return m
}
