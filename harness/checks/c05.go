package checks

import (
	"fmt"
	"html"
	"math/rand"
	"net/http"
	"net/url"
	"os"
	"path/filepath"
	"regexp"
	"strings"
	"time"

	"github.com/internetarchive/Zeno/internal/pkg/config"
	"github.com/internetarchive/Zeno/internal/verif/vc"
	"github.com/internetarchive/Zeno/pkg/models"
)

// C05 — no request is ever sent for a URL outside the operator's scope.
//
// Observation point: the boundary between the real preprocessor stage and the archiver — every item
// that leaves the stage with a request attached; the wire URL of that request is judged by an
// independent scope predicate (net/url only). Each child process = one filter set, installed through
// config + GenerateCrawlConfig exactly as the CLI does (so the default exclusions are the shipped ones).

func init() {
	register("C05", c05)
	registerChild("c05", c05Child)
}

type c05Filters struct {
	IncludeHosts   []string `json:"include_hosts"`
	IncludeStrings []string `json:"include_strings"`
	ExcludeHosts   []string `json:"exclude_hosts"`
	ExcludeStrings []string `json:"exclude_strings"`
	Regexes        []string `json:"regexes"`
}

type c05Scenario struct {
	Seed    int64      `json:"seed"`
	Index   int        `json:"index"`
	Cases   int        `json:"cases"`
	Filters c05Filters `json:"filters"`
	Workers int        `json:"workers"`
	// UnreadableLine: the exclusion file holds an over-long line between its regexes
	UnreadableLine bool `json:"unreadable_line,omitempty"`
}

// c05InScope is the reference predicate, written from the statement, on the wire URL.
func c05InScope(wire string, f c05Filters, res []*regexp.Regexp) (bool, string) {
	u, err := url.Parse(wire)
	if err != nil {
		return false, "unparseable wire URL"
	}
	if u.Scheme != "http" && u.Scheme != "https" {
		return false, "scheme " + u.Scheme
	}
	h := u.Hostname()
	if h == "localhost" || h == "127.0.0.1" {
		return false, "loopback host"
	}
	if !strings.Contains(h, ".") {
		return false, "dot-less host"
	}
	for _, e := range append([]string{"archive.org", "archive-it.org"}, f.ExcludeHosts...) {
		if strings.Contains(u.Host, e) {
			return false, "exclude-host " + e
		}
	}
	for _, e := range f.ExcludeStrings {
		if strings.Contains(wire, e) {
			return false, "exclude-string " + e
		}
	}
	for _, re := range res {
		if re.MatchString(wire) {
			return false, "exclusion regex " + re.String()
		}
	}
	if len(f.IncludeHosts) > 0 || len(f.IncludeStrings) > 0 {
		ok := false
		for _, e := range f.IncludeHosts {
			if strings.Contains(u.Host, e) {
				ok = true
			}
		}
		for _, e := range f.IncludeStrings {
			if strings.Contains(wire, e) {
				ok = true
			}
		}
		if !ok {
			return false, "matches no include filter"
		}
	}
	return true, ""
}

func c05GenFilters(r *rand.Rand) c05Filters {
	var f c05Filters
	hostBits := []string{"a.example", "b-site", "cdn.c", "example.org", "d.example:8080", "deep", "xn--", ".example", "e.example", "g.example"}
	strBits := []string{"/img", "x.png", "?id=", "utm_", "https://", "index", "/v1/", "%20", "a=1", ".js", "~t", "/css/y.js", "a+b", "%2C", "p%2Fq", "=x%2Cy", "64%3A64"}
	reBits := []string{`\.png$`, `^https://www\.`, `[?&]page=\d*`, `/(css|img)/`, `example\.org`, `(?i)INDEX\.HTML`, `\d{2,}`, `//[^/]*:8080/`,
		// regexes on the spelling the crawler's query re-encoding puts on the wire (a page may spell the same query differently)
		`=a\+b(&|$)`, `%2C`, `=p%2Fq`, `64%3A64`, `[?&][a-z0-9_]+=v(&|$)`, `=x%2Cy`}
	pickN := func(src []string, max int) []string {
		n := r.Intn(max + 1)
		out := []string{}
		for i := 0; i < n; i++ {
			out = append(out, src[r.Intn(len(src))])
		}
		return out
	}
	if r.Intn(3) == 0 {
		f.IncludeHosts = pickN(hostBits, 3)
	}
	if r.Intn(3) == 0 {
		f.IncludeStrings = pickN(strBits, 2)
	}
	if r.Intn(2) == 0 {
		f.ExcludeHosts = pickN(hostBits, 3)
	}
	if r.Intn(2) == 0 {
		f.ExcludeStrings = pickN(strBits, 3)
	}
	if r.Intn(2) == 0 {
		f.Regexes = pickN(reBits, 3)
	}
	return f
}

func c05Child(scPath string) int {
	var sc c05Scenario
	if err := readJSON(scPath, &sc); err != nil {
		return 2
	}
	dir := os.Getenv("VZ_CHILD_DIR")
	rep := newReport()
	defer rep.write(dir)
	var res []*regexp.Regexp
	for _, s := range sc.Filters.Regexes {
		res = append(res, regexp.MustCompile(s))
	}
	exFile := filepath.Join(dir, "exclusions.txt")
	exLines := append([]string(nil), sc.Filters.Regexes...)
	if sc.UnreadableLine && len(exLines) >= 2 {
		// a line longer than any line reader's buffer (a valid regex that matches nothing in play), placed
		// between regexes: the file cannot be read to its end. A crawler that starts anyway must still
		// honour every regex of the file the operator gave it.
		long := "neverfound" + strings.Repeat("z", 70<<10)
		exLines = append(exLines[:1], append([]string{long}, exLines[1:]...)...)
	}
	os.WriteFile(exFile, []byte(strings.Join(exLines, "\n")), 0o644)
	zenoConfig(dir, false, func(c *config.Config) {
		c.WorkersCount = sc.Workers
		c.IncludeHosts = sc.Filters.IncludeHosts
		c.IncludeString = sc.Filters.IncludeStrings
		c.ExcludeHosts = sc.Filters.ExcludeHosts
		c.ExcludeString = sc.Filters.ExcludeStrings
		if len(sc.Filters.Regexes) > 0 {
			c.ExclusionFile = []string{exFile}
		}
		c.MaxHops = 0
		c.DisableSeencheck = false
	})
	h, err := startStages(true)
	if err != nil {
		if sc.UnreadableLine {
			// refusing the configuration is the safe answer: nothing is crawled, nothing can leave the scope
			rep.event("configuration_refused_unreadable_exclusion_file", 1)
			rep.Evaluations++
			return 0
		}
		rep.violation("harness/start", err.Error(), nil)
		return 0
	}
	rng := rand.New(rand.NewSource(vc.DeriveSeed(sc.Seed, "C05", "cases", sc.Index)))
	// in-scope parents for redirect/asset positions
	var parents []string
	for i := 0; i < 400 && len(parents) < 6; i++ {
		p := genWFAbsolute(rng)
		p.Path = "/start" + fmt.Sprint(i) + p.Path
		if ok, _ := c05InScope(p.String(), sc.Filters, res); ok {
			parents = append(parents, p.String())
		}
	}
	// query values whose spelling changes when the crawler re-encodes the query (space, %20, comma,
	// slash, colon): the filters must see the text that goes on the wire
	oddQuery := func() string {
		var ps []string
		for k := 0; k < 1+rng.Intn(3); k++ {
			ps = append(ps, pick(rng, genKeys)+"="+pick(rng, []string{"a%20b", "a b", "x,y", "p/q", "64:64,smart", "v", "1", "c%2Cd", "a+b", "%76", "%78%2cy"}))
		}
		return strings.Join(ps, "&")
	}
	genText := func() string {
		switch rng.Intn(11) {
		case 0, 1, 2:
			return genWFAbsolute(rng).String()
		case 10:
			if rng.Intn(2) == 0 {
				u := genWFAbsolute(rng)
				return u.Scheme + "://" + u.Host + u.Path + "?" + oddQuery()
			}
			return genPath(rng, 3, false, rng.Intn(2) == 0) + "?" + oddQuery()
		case 3:
			return genPath(rng, 4, true, rng.Intn(2) == 0) // relative (meaningful under a parent)
		case 4:
			return "//" + pick(rng, append(append([]string{}, genHosts...), genBadHosts...)) + genPath(rng, 2, false, true)
		default:
			return genMutated(rng)
		}
	}
	check := func(pos, text, parent string, cr *crawlResult) {
		for _, rq := range cr.Requests {
			if pos != "seed" && rq.Depth == 0 {
				continue // the in-scope parent itself
			}
			ok, why := c05InScope(rq.URL, sc.Filters, res)
			rep.event("requests_observed", 1)
			if ok {
				rep.distinct(pos + "/requested")
				continue
			}
			rep.violation("out-of-scope/"+pos+"/"+strings.SplitN(why, " ", 2)[0], fmt.Sprintf("request for %q (from %s text %q, parent %q) is out of scope: %s", rq.URL, pos, text, parent, why),
				map[string]any{"position": pos, "text": text, "parent": parent, "wire_url": rq.URL, "why": why, "filters": sc.Filters})
		}
		if len(cr.Requests) == 0 || (pos != "seed" && len(cr.Requests) == 1) {
			rep.distinct(pos + "/not-requested")
		}
		if cr.Err != "" {
			rep.violation("harness/crawl-error", cr.Err, map[string]any{"text": text})
		}
	}
	leaf := func(it *models.Item, wire string) *fakeResp {
		return &fakeResp{Status: 200, Header: http.Header{"Content-Type": {"text/plain"}}, Body: []byte("ok")}
	}
	for i := 0; i < sc.Cases; i++ {
		text := genText()
		rep.Evaluations++
		pos := []string{"seed", "redirect", "asset", "asset"}[rng.Intn(4)]
		if len(parents) == 0 {
			pos = "seed"
		}
		id := fmt.Sprintf("c%d", i)
		switch pos {
		case "seed":
			seed, err := newSeed(id, text, "", 0)
			if err != nil {
				rep.distinct("seed/unparseable-by-consumer")
				continue // the queue consumer sends such rows straight to the finisher: no request
			}
			check(pos, text, "", h.crawl(seed, leaf, 6))
		case "redirect":
			parent := parents[rng.Intn(len(parents))] + fmt.Sprintf("?c=%d", i)
			seed, _ := newSeed(id, parent, "", 0)
			check(pos, text, parent, h.crawl(seed, func(it *models.Item, wire string) *fakeResp {
				if it.GetDepth() == 0 {
					return &fakeResp{Status: 302, Header: http.Header{"Location": {text}}, Body: nil}
				}
				return leaf(it, wire)
			}, 6))
		default:
			parent := parents[rng.Intn(len(parents))] + fmt.Sprintf("?c=%d", i)
			seed, _ := newSeed(id, parent, "", 0)
			body := fmt.Sprintf("<html><head><link rel=\"stylesheet\" href=\"%s\"></head><body><img src=\"%s\"></body></html>", html.EscapeString(text), html.EscapeString(text))
			check(pos, text, parent, h.crawl(seed, func(it *models.Item, wire string) *fakeResp {
				if it.GetDepth() == 0 {
					return &fakeResp{Status: 200, Header: http.Header{"Content-Type": {"text/html; charset=utf-8"}}, Body: []byte(body)}
				}
				return leaf(it, wire)
			}, 6))
		}
		if i%1500 == 7 {
			rep.sample(map[string]any{"position": pos, "text": text, "filters": sc.Filters}, 3)
		}
	}
	if left := h.tempFiles(); len(left) > 0 {
		rep.Extra["temp_files_left"] = len(left)
	}
	return 0
}

func c05(r *vc.Run) int {
	nSets := r.N(16, 96)
	cases := r.N(20000, 60000)
	m := newMerged()
	parallel(nSets, 14, func(i int) {
		rng := r.Rand("filters", i)
		f := c05GenFilters(rng)
		if i == 0 {
			f = c05Filters{} // the default configuration: only the shipped exclusions
		}
		sc := c05Scenario{Seed: r.Seed, Index: i, Cases: cases, Filters: f, Workers: 1 + i%3, UnreadableLine: i%5 == 3 && len(f.Regexes) >= 2}
		res := runChild(os.Getenv("VZ_BIN"), "c05", sc, filepath.Join(r.Scratch, fmt.Sprintf("c05-%d", i)), 20*time.Minute)
		absorb(r, m, res, fmt.Sprintf("filterset%d", i), sc, true)
	})
	cov := map[string]any{
		"evaluations":         m.Evaluations,
		"distinct_nontrivial": m.Events["requests_observed"],
		"rule":                "one evaluation = one (URL text, position in {seed, redirect target, asset}, filter set) pushed through the real preprocessor stage; non-trivial = requests that actually left the stage for the probed position (each judged by the reference predicate); filter sets are installed through GenerateCrawlConfig",
		"samples":             m.Samples,
		"outcomes":            m.Distinct,
		"filter_sets":         m.Children,
		"events":              m.Events,
	}
	if cov["samples"] == nil {
		cov["samples"] = []any{}
	}
	return r.Finish("exploration", cov, []string{
		"scope predicate evaluated on the wire URL (request URL attached by the preprocessor) with net/url only",
		"literal reading of the host rule: hostname not in {localhost, 127.0.0.1} and containing a dot",
		"the fetch is fabricated (302 + Location, or HTML with img/link), the preprocessor, seencheck and postprocessor stages are the real ones",
	}, 1000)
}
