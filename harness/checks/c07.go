package checks

import (
	"fmt"
	"math/rand"
	"net/http"
	"os"
	"path/filepath"
	"strings"
	"time"

	"github.com/internetarchive/Zeno/internal/pkg/config"
	"github.com/internetarchive/Zeno/internal/verif/vc"
	"github.com/internetarchive/Zeno/pkg/models"
)

// C07 — page requisites in standard HTML attributes are all fetched, correctly resolved.
// Generated HTML documents with planted references (unique token each) go through the real
// preprocessor + postprocessor stages; the oracle compares the requests that left the preprocessor
// (wire URLs) and the outlinks handed to the queue with an independent RFC 3986 resolution.

func init() {
	register("C07", c07)
	registerChild("c07", c07Child)
}

type c07Ref struct {
	Token  string `json:"token"`
	Tag    string `json:"tag"`   // img script link source video audio style a
	Attr   string `json:"attr"`  // src srcset href css-element css-attr
	Form   string `json:"form"`  // reference form
	Quote  string `json:"quote"` // dq sq bare
	Ref    string `json:"ref"`
	Want   string `json:"want"` // expected absolute URL
	Rel    string `json:"rel,omitempty"`
	Anchor bool   `json:"anchor,omitempty"`
}

type c07Scenario struct {
	Seed         int64    `json:"seed"`
	Index        int      `json:"index"`
	Docs         int      `json:"docs"`
	DisableTags  []string `json:"disable_tags"`
	Alternate    bool     `json:"capture_alternate"`
	NoAssets     bool     `json:"disable_assets"`
	ExoticForms  bool     `json:"exotic_forms"` // percent-escapes, css whitespace, scheme-relative in <style>
	WorkersCount int      `json:"workers"`
}

func c07GenRef(r *rand.Rand, tok, pageURL string, inStyleElem, exotic bool) (ref, form string) {
	file := tok + "." + pick(r, []string{"png", "js", "css", "jpg", "woff2", "mp4", "webp"})
	q := ""
	if r.Intn(4) == 0 {
		q = "?v=" + fmt.Sprint(r.Intn(50))
		if r.Intn(2) == 0 {
			q += "&w=" + pick(r, genVals[:6])
		}
	}
	other := pick(r, []string{"cdn.assets.example", "static.other.example.org", "img.example:8080"})
	switch x := r.Intn(10); {
	case x == 0:
		return "https://pages.example/abs/" + file + q, "absolute-same-host"
	case x == 1:
		return pick(r, []string{"http", "https"}) + "://" + other + "/a/" + file + q, "absolute-other-host"
	case x == 2 && !(inStyleElem && !exotic):
		return "//" + other + "/sr/" + file + q, "scheme-relative"
	case x == 3:
		return "/root/" + file + q, "path-absolute"
	case x == 4:
		return "./" + file + q, "dot-slash"
	case x == 5:
		return strings.Repeat("../", 1+r.Intn(3)) + "up/" + file + q, "dot-dot"
	case x == 6:
		return "sub/dir/" + file + q, "path-relative-sub"
	case x == 7 && strings.Contains(pageURL[strings.LastIndex(pageURL, "/"):], "."):
		return "?asset=" + tok, "query-only"
	case x == 8 && exotic:
		return "/esc/a%20b/" + file, "percent-escape"
	default:
		return file + q, "path-relative"
	}
}

func c07Quote(r *rand.Rand, v string, allowBare bool) (string, string) {
	esc := strings.ReplaceAll(v, "&", "&amp;")
	switch x := r.Intn(3); {
	case x == 0:
		return `"` + esc + `"`, "dq"
	case x == 1:
		return `'` + esc + `'`, "sq"
	case allowBare && !strings.ContainsAny(v, " \t\n\"'=<>`"):
		return esc, "bare"
	}
	return `"` + esc + `"`, "dq"
}

func c07GenDoc(r *rand.Rand, tg *tokGen, pageURL string, sc c07Scenario) (string, []c07Ref) {
	var refs []c07Ref
	mk := func(tag, attr string, inStyle bool) c07Ref {
		tok := tg.next()
		ref, form := c07GenRef(r, tok, pageURL, inStyle, sc.ExoticForms)
		return c07Ref{Token: tok, Tag: tag, Attr: attr, Form: form, Ref: ref, Want: c07Canon(resolveRef(pageURL, ref))}
	}
	var head, body strings.Builder
	// head
	for i := 0; i < r.Intn(4); i++ {
		rf := mk("link", "href", false)
		rf.Rel = pick(r, []string{"stylesheet", "icon", "preload", "alternate", "stylesheet"})
		q, qs := c07Quote(r, rf.Ref, true)
		rf.Quote = qs
		extra := ""
		if rf.Rel == "preload" {
			extra = ` as="image"`
		}
		if rf.Rel == "alternate" {
			extra = ` hreflang="fr"`
		}
		fmt.Fprintf(&head, "<link rel=\"%s\" href=%s%s>\n", rf.Rel, q, extra)
		refs = append(refs, rf)
	}
	for i := 0; i < r.Intn(3); i++ {
		rf := mk("script", "src", false)
		q, qs := c07Quote(r, rf.Ref, true)
		rf.Quote = qs
		fmt.Fprintf(&head, "<script src=%s></script>\n", q)
		refs = append(refs, rf)
	}
	if r.Intn(2) == 0 {
		head.WriteString("<style>\nbody { margin: 0 }\n")
		for i := 0; i < 1+r.Intn(3); i++ {
			rf := mk("style", "css-element", true)
			var u string
			switch x := r.Intn(4); {
			case x == 0:
				u, rf.Quote = "url("+rf.Ref+")", "bare"
			case x == 1:
				u, rf.Quote = "url('"+rf.Ref+"')", "sq"
			case x == 2 && sc.ExoticForms:
				u, rf.Quote = "url( \""+rf.Ref+"\" )", "dq-ws"
			default:
				u, rf.Quote = "url(\""+rf.Ref+"\")", "dq"
			}
			fmt.Fprintf(&head, ".c%d { background-image: %s; }\n", i, u)
			refs = append(refs, rf)
		}
		head.WriteString("</style>\n")
	}
	// body
	depth := 0
	open := func() {
		t := pick(r, []string{"div", "section", "p", "figure", "table><tr><td", "ul><li"})
		body.WriteString("<" + t + ">\n")
		depth++
	}
	n := 2 + r.Intn(8)
	for i := 0; i < n; i++ {
		if r.Intn(3) == 0 && depth < 4 {
			open()
		}
		switch r.Intn(9) {
		case 0, 1:
			rf := mk("img", "src", false)
			q, qs := c07Quote(r, rf.Ref, true)
			rf.Quote = qs
			fmt.Fprintf(&body, "<img alt=\"x\" src=%s>\n", q)
			refs = append(refs, rf)
		case 2:
			a, b := mk("img", "srcset", false), mk("img", "srcset", false)
			desc := [][2]string{{"1x", "2x"}, {"480w", "800w"}}[r.Intn(2)]
			// candidates end at a comma, with or without white space around it (HTML standard, "parse a srcset attribute")
			sep := pick(r, []string{", ", ",", " , ", ",\n  ", ", "})
			v := a.Ref + " " + desc[0] + sep + b.Ref + " " + desc[1]
			q, qs := c07Quote(r, v, false)
			a.Quote, b.Quote = qs, qs
			fallback := mk("img", "src", false)
			fq, fqs := c07Quote(r, fallback.Ref, true)
			fallback.Quote = fqs
			fmt.Fprintf(&body, "<img srcset=%s src=%s>\n", q, fq)
			refs = append(refs, a, b, fallback)
		case 3:
			s1 := mk("source", "srcset", false)
			im := mk("img", "src", false)
			q1, qs1 := c07Quote(r, s1.Ref+" 2x", false)
			q2, qs2 := c07Quote(r, im.Ref, true)
			s1.Quote, im.Quote = qs1, qs2
			fmt.Fprintf(&body, "<picture><source type=\"image/webp\" srcset=%s><img src=%s></picture>\n", q1, q2)
			refs = append(refs, s1, im)
		case 4:
			tag := pick(r, []string{"video", "audio"})
			if r.Intn(2) == 0 {
				rf := mk(tag, "src", false)
				q, qs := c07Quote(r, rf.Ref, true)
				rf.Quote = qs
				fmt.Fprintf(&body, "<%s controls src=%s></%s>\n", tag, q, tag)
				refs = append(refs, rf)
			} else {
				rf := mk("source", "src", false)
				q, qs := c07Quote(r, rf.Ref, true)
				rf.Quote = qs
				fmt.Fprintf(&body, "<%s controls><source src=%s type=\"video/mp4\"></%s>\n", tag, q, tag)
				refs = append(refs, rf)
			}
		case 5:
			rf := mk("*", "css-attr", false)
			inner := pick(r, []string{"'", "", "&quot;"})
			rf.Quote = map[string]string{"'": "sq", "": "bare", "&quot;": "dq"}[inner]
			fmt.Fprintf(&body, "<div style=\"width:10px; background-image: url(%s%s%s)\">x</div>\n", inner, strings.ReplaceAll(rf.Ref, "&", "&amp;"), inner)
			refs = append(refs, rf)
		case 6, 7:
			tok := tg.next()
			ref, form := c07GenRef(r, tok, pageURL, false, false)
			ref = strings.NewReplacer(".png", "", ".js", "", ".css", "", ".jpg", "", ".woff2", "", ".mp4", "", ".webp", "").Replace(ref)
			if r.Intn(4) == 0 {
				ref += "#sec" + fmt.Sprint(r.Intn(9))
			}
			rf := c07Ref{Token: tok, Tag: "a", Attr: "href", Form: form, Ref: ref, Want: c07Canon(resolveRef(pageURL, ref)), Anchor: true}
			q, qs := c07Quote(r, ref, true)
			rf.Quote = qs
			fmt.Fprintf(&body, "<a href=%s>link %d</a>\n", q, i)
			refs = append(refs, rf)
		default:
			fmt.Fprintf(&body, "<!-- <img src=\"/decoy/%s.png\"> -->\n<p>see https://decoy.example/prose/%s.png for more</p>\n", tg.next(), tg.next())
		}
	}
	doc := "<!DOCTYPE html>\n<html><head><meta charset=\"utf-8\"><title>t</title>\n" + head.String() + "</head><body>\n" + body.String() + "</body></html>\n"
	return doc, refs
}

// c07Canon: what the crawler's canonical form of an (already resolved, safe-alphabet) URL is:
// default port dropped, valueless... (generated queries are k=v), empty path -> "/".
func c07Canon(u string) string {
	p := splitRef(u)
	p.authority = dropDefaultPort(p.scheme, p.authority)
	s := p.scheme + "://" + p.authority + orSlash(p.path)
	if p.hasQuery && p.query != "" {
		s += "?" + p.query
	}
	return s
}

func c07Child(scPath string) int {
	var sc c07Scenario
	if err := readJSON(scPath, &sc); err != nil {
		return 2
	}
	dir := os.Getenv("VZ_CHILD_DIR")
	rep := newReport()
	defer rep.write(dir)
	zenoConfig(dir, false, func(c *config.Config) {
		c.WorkersCount = sc.WorkersCount
		c.MaxHops = 1
		c.DisableHTMLTag = sc.DisableTags
		c.CaptureAlternatePages = sc.Alternate
		c.DisableAssetsCapture = sc.NoAssets
	})
	h, err := startStages(true)
	if err != nil {
		rep.violation("harness/start", err.Error(), nil)
		return 0
	}
	disabled := map[string]bool{}
	for _, t := range sc.DisableTags {
		disabled[t] = true
	}
	for i := 0; i < sc.Docs; i++ {
		rng := rand.New(rand.NewSource(vc.DeriveSeed(sc.Seed, "C07", "doc", sc.Index, i)))
		tg := &tokGen{prefix: fmt.Sprintf("q%dd%d", sc.Index, i)}
		pageURL := "https://pages.example" + pick(rng, []string{"/", "/index.html", "/a/b/page.html", "/dir/", "/a/b/c/d/e.php", "/x/y/z"}) // directory depth, file name
		if rng.Intn(3) == 0 {
			pageURL += "?p=" + fmt.Sprint(i)
		} else {
			pageURL = strings.Replace(pageURL, "pages.example/", fmt.Sprintf("pages.example/s%dd%d/", sc.Index, i), 1)
		}
		doc, refs := c07GenDoc(rng, tg, pageURL, sc)
		// the page may sit behind a chain of redirections (http -> https -> www -> /index.html ...): it is still "a page fetched with status 200"
		nRedir := 0
		if rng.Intn(3) == 0 {
			nRedir = 1 + rng.Intn(4)
		}
		chain := []string{}
		for k := 0; k < nRedir; k++ {
			chain = append(chain, fmt.Sprintf("https://pages.example/go%d/s%dd%d", k, sc.Index, i))
		}
		chain = append(chain, pageURL)
		seed, err := newSeed(fmt.Sprintf("p%d", i), chain[0], "", 0)
		if err != nil {
			continue
		}
		cr := h.crawl(seed, func(it *models.Item, wire string) *fakeResp {
			for k := 0; k < nRedir; k++ {
				if wire == chain[k] {
					return &fakeResp{Status: []int{301, 302, 307, 308}[k%4], Header: http.Header{"Location": {chain[k+1]}}}
				}
			}
			if wire == pageURL {
				return &fakeResp{Status: 200, Header: http.Header{"Content-Type": {"text/html; charset=utf-8"}}, Body: []byte(doc)}
			}
			return leafResp()
		}, 12)
		rep.Evaluations++
		if cr.Err != "" || !cr.Finished {
			rep.violation("harness/crawl", fmt.Sprintf("crawl error %q finished=%v", cr.Err, cr.Finished), map[string]any{"doc": doc})
			continue
		}
		reqs := map[string]bool{}
		var reqList []string
		for _, rq := range cr.Requests {
			reqs[rq.URL] = true
			reqList = append(reqList, rq.URL)
		}
		outs := map[string]bool{}
		var outList []string
		for _, o := range cr.Outlinks {
			raw := o.GetURL().Raw
			if j := strings.IndexByte(raw, '#'); j >= 0 {
				raw = raw[:j]
			}
			outs[c07Canon(raw)] = true
			outList = append(outList, o.GetURL().Raw)
		}
		for _, rf := range refs {
			class := rf.Tag + "[" + rf.Attr + "]/" + rf.Form + "/" + rf.Quote
			if nRedir > 0 {
				class += fmt.Sprintf("/behind-%d-redirects", nRedir)
			}
			if rf.Anchor {
				rep.event("planted_anchors", 1)
				rep.distinct(class)
				if !disabled["a"] && !outs[rf.Want] {
					got := ""
					for _, o := range outList {
						if strings.Contains(o, rf.Token) {
							got = o
						}
					}
					sig := "anchor-not-queued/" + rf.Form
					if got != "" {
						sig = "anchor-misresolved/" + rf.Form
					}
					rep.violation(sig, fmt.Sprintf("<a href=%q> on %s: expected outlink %s, got %q", rf.Ref, pageURL, rf.Want, got), map[string]any{"ref": rf, "page": pageURL, "doc": doc, "outlinks": outList})
				}
				continue
			}
			expected := !sc.NoAssets && !disabled[rf.Tag] && !(rf.Rel == "alternate" && !sc.Alternate)
			if !expected {
				rep.event("planted_not_required", 1)
				continue
			}
			rep.event("planted_requisites", 1)
			rep.distinct(class)
			if reqs[rf.Want] {
				continue
			}
			got := ""
			for _, u := range reqList {
				if strings.Contains(u, rf.Token) {
					got = u
				}
			}
			sig := fmt.Sprintf("requisite-not-fetched/%s[%s]/%s", rf.Tag, rf.Attr, rf.Form)
			if nRedir > 0 && got == "" {
				sig = fmt.Sprintf("requisite-not-fetched-behind-redirects/%d", nRedir)
			}
			if got != "" {
				sig = fmt.Sprintf("requisite-misresolved/%s[%s]/%s", rf.Tag, rf.Attr, rf.Form)
			}
			if rf.Quote == "dq-ws" {
				sig += "/css-whitespace"
			}
			rep.violation(sig, fmt.Sprintf("%s %s=%q (%s quoting) on %s: expected request %s, got %q", rf.Tag, rf.Attr, rf.Ref, rf.Quote, pageURL, rf.Want, got),
				map[string]any{"ref": rf, "page": pageURL, "doc": doc, "requests": reqList})
		}
		if i%300 == 5 {
			rep.sample(map[string]any{"page": pageURL, "refs": len(refs), "doc": truncate(doc, 900)}, 2)
		}
	}
	return 0
}

func c07(r *vc.Run) int {
	docs := r.N(700, 7000)
	type cfg struct {
		tags   []string
		alt    bool
		no     bool
		exotic bool
	}
	cfgs := []cfg{{}, {}, {alt: true}, {tags: []string{"img"}}, {tags: []string{"script"}}, {tags: []string{"link"}}, {tags: []string{"source"}},
		{tags: []string{"video"}}, {tags: []string{"audio"}}, {tags: []string{"style"}}, {tags: []string{"a"}}, {no: true}, {exotic: true}, {exotic: true, alt: true}}
	if r.Thorough() {
		cfgs = append(cfgs, cfgs...)
		cfgs = append(cfgs, cfgs...)
	}
	m := newMerged()
	parallel(len(cfgs), 14, func(i int) {
		c := cfgs[i]
		sc := c07Scenario{Seed: r.Seed, Index: i, Docs: docs, DisableTags: c.tags, Alternate: c.alt, NoAssets: c.no, ExoticForms: c.exotic, WorkersCount: 1 + i%3}
		res := runChild(os.Getenv("VZ_BIN"), "c07", sc, filepath.Join(r.Scratch, fmt.Sprintf("c07-%d", i)), 25*time.Minute)
		absorb(r, m, res, fmt.Sprintf("cfg%d", i), sc, true)
	})
	cov := map[string]any{
		"evaluations":         m.Evaluations,
		"distinct_nontrivial": len(m.Distinct),
		"rule":                "one evaluation = one generated HTML document pushed through the real preprocessor+postprocessor stages under one configuration; distinct = distinct (tag[attribute], reference form, quoting) combinations that carried a planted, required reference",
		"samples":             m.Samples,
		"events":              m.Events,
		"configurations":      len(cfgs),
	}
	if cov["samples"] == nil {
		cov["samples"] = []any{}
	}
	return r.Finish("exploration", cov, []string{
		"expected URL = own RFC 3986 resolver on references from an unreserved alphabet (plus, in the 'exotic' configurations, percent-escapes, whitespace inside url( ) and scheme-relative references inside <style>)",
		"no <base>, no <noscript>/<template>; requisite paths are files (Zeno drops children whose path is empty or /)",
		"fetches are fabricated; extra fetches are never a violation",
	}, 40)
}
