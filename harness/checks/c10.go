package checks

import (
	"bytes"
	"encoding/base64"
	"fmt"
	"io"
	"math/rand"
	"net/http"
	"net/url"
	"os"
	"path/filepath"
	"runtime"
	"strconv"
	"strings"
	"sync"
	"sync/atomic"
	"syscall"
	"time"

	"github.com/internetarchive/Zeno/internal/pkg/archiver"
	"github.com/internetarchive/Zeno/internal/pkg/config"
	"github.com/internetarchive/Zeno/internal/pkg/preprocessor"
	"github.com/internetarchive/Zeno/internal/verif/vc"
	"github.com/internetarchive/Zeno/pkg/models"
)

// C10 — no server-controlled input can crash or hang the crawler.
//
// Hostile responses (any body bytes, status, Content-Type, Location, Link, Server headers) are served
// to the real preprocessor + postprocessor stages (real dispatch, real extractors, real ProcessBody,
// real NormalizeURL on whatever text comes out). Children are isolated processes: a panic anywhere
// kills the child, the parent finds the index of the input being processed on disk, regenerates the
// input from (seed, index) and records the witness. Hang oracle: CPU time (getrusage) of one input.

func init() {
	register("C10", c10)
	registerChild("c10", c10Child)
	registerChild("c10-url", c10URLChild)
}

// c10URLText regenerates the idx-th hostile URL text (and parent) of the ASan part.
func c10URLText(seed int64, idx int) (text, parent string) {
	r := rand.New(rand.NewSource(vc.DeriveSeed(seed, "C10", "url", idx)))
	switch r.Intn(4) {
	case 0:
		b := make([]byte, r.Intn(200))
		r.Read(b)
		text = string(b)
	case 1:
		text = genMutated(r)
	default:
		text = c10HostileText(r)
	}
	if r.Intn(2) == 0 {
		parent = genWFAbsolute(r).String()
		if r.Intn(4) == 0 {
			parent = c10HostileText(r)
		}
	}
	return
}

// c10URLChild: the cgo (C++) WHATWG URL parser behind NormalizeURL on hostile texts; meant for the
// AddressSanitizer build, where a memory error is a process-fatal report on stderr.
func c10URLChild(scPath string) int {
	var sc c10Scenario
	if err := readJSON(scPath, &sc); err != nil {
		return 2
	}
	dir := os.Getenv("VZ_CHILD_DIR")
	rep := newReport()
	curPath := filepath.Join(dir, "current")
	accepted := 0
	for i := sc.Start; i < sc.End; i++ {
		if i%64 == 0 { // the index file is rewritten every 64 inputs; a crash is attributed by re-running that window
			os.WriteFile(curPath, []byte(strconv.Itoa(i)), 0o644)
		}
		text, parentText := c10URLText(sc.Seed, i)
		var parent *models.URL
		if parentText != "" {
			parent = &models.URL{Raw: parentText}
			if preprocessor.NormalizeURL(parent, nil) != nil {
				parent = nil
			}
		}
		u := &models.URL{Raw: text}
		if preprocessor.NormalizeURL(u, parent) == nil {
			_ = u.String()
			accepted++
		}
		rep.Evaluations++
	}
	rep.event("url_texts_accepted", accepted)
	rep.write(dir)
	return 0
}

type c10Scenario struct {
	Seed       int64 `json:"seed"`
	Start      int   `json:"start"`
	End        int   `json:"end"`
	CPUBudget  int   `json:"cpu_budget_s"`
	MemLimitMB int   `json:"mem_limit_mb"`
	// WitnessFile: instead of generated inputs, serve the bytes of this file once as a PDF response
	// (recorded witnesses of listed findings do not depend on the generators)
	WitnessFile string `json:"witness_file,omitempty"`
	// DumpTo: write the body of input Start to this file and exit (used to record a witness)
	DumpTo string `json:"dump_to,omitempty"`
}

func rssBytes() int64 {
	b, err := os.ReadFile("/proc/self/statm")
	if err != nil {
		return 0
	}
	f := strings.Fields(string(b))
	if len(f) < 2 {
		return 0
	}
	pages, _ := strconv.ParseInt(f[1], 10, 64)
	return pages * int64(os.Getpagesize())
}

// hangFrame names the call site of a hang in a way that is stable across runs: the innermost Zeno frame of the
// spinning stage goroutine plus the package it called into (the frame inside a third-party loop varies per sample).
func hangFrame(stacks string) string {
	for _, g := range strings.Split(stacks, "\n\n") {
		if !strings.Contains(g, "Zeno/internal/pkg/postprocessor") && !strings.Contains(g, "Zeno/internal/pkg/preprocessor") && !strings.Contains(g, "Zeno/internal/pkg/archiver") {
			continue
		}
		if !(strings.Contains(g, "[running]") || strings.Contains(g, "[runnable]")) {
			continue
		}
		var chain []string // innermost first
		for _, l := range strings.Split(g, "\n") {
			if strings.HasPrefix(l, "goroutine ") || strings.HasPrefix(l, "\t") || strings.HasPrefix(l, "runtime.") || strings.HasPrefix(l, "created by") || strings.HasPrefix(l, "=====") || l == "" {
				continue
			}
			if i := strings.LastIndex(l, "("); i > 0 {
				l = l[:i]
			}
			chain = append(chain, strings.TrimPrefix(l, "github.com/"))
		}
		for i, f := range chain {
			if strings.HasPrefix(f, "internetarchive/Zeno/") && !strings.Contains(f, "/internal/verif/") {
				site := strings.TrimPrefix(f, "internetarchive/Zeno/")
				callee := "self"
				if i > 0 {
					callee = chain[i-1]
					if j := strings.LastIndex(callee, "."); j > 0 {
						callee = callee[:j] // package (and receiver) only
					}
					if j := strings.LastIndex(callee, ".("); j > 0 {
						callee = callee[:j]
					}
				}
				return site + "->" + callee
			}
		}
	}
	return "unknown-frame"
}

type c10Case struct {
	Kind     string
	SeedURL  string
	Status   int
	Header   http.Header
	Body     []byte
	ChildHdr http.Header
	ChildBod []byte
}

var c10Samples struct {
	pdf, rss []byte
}

func c10LoadSamples() {
	repo := os.Getenv("REPO")
	if repo == "" {
		repo = "/repo"
	}
	c10Samples.pdf, _ = os.ReadFile(filepath.Join(repo, "internal/pkg/postprocessor/extractor/testdata/InternetArchiveDeveloperPortal.pdf"))
	c10Samples.rss, _ = os.ReadFile(filepath.Join(repo, "internal/pkg/postprocessor/extractor/testdata/rss2.0.xml"))
}

func c10Mutate(r *rand.Rand, b []byte) []byte {
	b = append([]byte(nil), b...)
	n := 1 + r.Intn(4)
	for i := 0; i < n && len(b) > 0; i++ {
		switch r.Intn(10) {
		case 0: // bit flips
			for k := 0; k < 1+r.Intn(8); k++ {
				b[r.Intn(len(b))] ^= 1 << uint(r.Intn(8))
			}
		case 1: // byte replace
			for k := 0; k < 1+r.Intn(6); k++ {
				b[r.Intn(len(b))] = byte(r.Intn(256))
			}
		case 2: // truncate
			b = b[:r.Intn(len(b))]
		case 3: // duplicate chunk
			s := r.Intn(len(b))
			e := s + r.Intn(len(b)-s+1)
			if e-s > 8192 {
				e = s + 8192
			}
			p := r.Intn(len(b) + 1)
			b = append(b[:p:p], append(append([]byte(nil), b[s:e]...), b[p:]...)...)
		case 4: // delete chunk
			s := r.Intn(len(b))
			e := s + r.Intn(len(b)-s+1)
			b = append(b[:s:s], b[e:]...)
		case 5: // insert hostile token
			tok := pick(r, []string{"\x00", "\xff\xfe", "<", ">", "\"", "'", "{", "}", "[", "]", "&#x", "&amp", "<![CDATA[", "]]>", "<!--", "-->", "\\u", "\\", "%", "%zz", "\r\n", "\n#EXT", "#EXT-X-STREAM-INF:", "#EXTINF:", "obj", "endobj", "stream", "xref", "<<", ">>", "/Length 99999999", "url(", "http://", "//", "://", "?", "#", "@", ":", "‮", strings.Repeat("A", 300)})
			p := r.Intn(len(b) + 1)
			b = append(b[:p:p], append([]byte(tok), b[p:]...)...)
		case 6: // tweak a number (length fields, counts)
			for k := 0; k < 3; k++ {
				p := r.Intn(len(b))
				for p < len(b) && (b[p] < '0' || b[p] > '9') {
					p++
				}
				if p < len(b) {
					rep := pick(r, []string{"0", "-1", "99999999999", "2147483648", "18446744073709551616", "1e309", "0x7fffffff"})
					e := p
					for e < len(b) && b[e] >= '0' && b[e] <= '9' {
						e++
					}
					b = append(b[:p:p], append([]byte(rep), b[e:]...)...)
					break
				}
			}
		case 7: // splice with another sample
			other := [][]byte{c10Samples.pdf, c10Samples.rss, []byte("#EXTM3U\n#EXT-X-VERSION:3\n#EXTINF:9,\nseg.ts\n"), []byte(`{"a":["https://x.example/a.png",{"b":"{\"c\":1}"}]}`)}[r.Intn(4)]
			if len(other) > 0 {
				s := r.Intn(len(other))
				e := s + r.Intn(len(other)-s+1)
				if e-s > 4096 {
					e = s + 4096
				}
				p := r.Intn(len(b) + 1)
				b = append(b[:p:p], append(append([]byte(nil), other[s:e]...), b[p:]...)...)
			}
		case 8: // swap two chunks
			if len(b) > 16 {
				a, c := r.Intn(len(b)/2), len(b)/2+r.Intn(len(b)/2)
				l := 1 + r.Intn(8)
				for k := 0; k < l && a+k < len(b)/2 && c+k < len(b); k++ {
					b[a+k], b[c+k] = b[c+k], b[a+k]
				}
			}
		default: // random garbage tail
			g := make([]byte, r.Intn(64))
			r.Read(g)
			b = append(b, g...)
		}
	}
	if len(b) > 65536 {
		b = b[:65536]
	}
	return b
}

// c10M3U8Soup: a playlist assembled from the whole RFC 8216 tag vocabulary in any order and number
// (tags that belong to the other playlist kind, tags before the first segment, attribute lists with
// missing / repeated / malformed attributes): every line is something a server may send.
func c10M3U8Soup(r *rand.Rand) []byte {
	uri := func() string {
		return pick(r, []string{"seg.ts", "k", "init.mp4", "https://v.example/a/b.m3u8", "/abs/key.bin", "../up.ts", "", "data:text/plain;base64,AAAA", "skd://key", c10HostileText(r)})
	}
	attr := func() string {
		var as []string
		for k := 0; k < r.Intn(5); k++ {
			as = append(as, pick(r, []string{
				"METHOD=" + pick(r, []string{"AES-128", "NONE", "SAMPLE-AES", "", "x"}), "URI=\"" + uri() + "\"", "URI=" + uri(), "IV=0x" + strings.Repeat("9", r.Intn(40)), "KEYFORMAT=\"identity\"",
				"BANDWIDTH=" + pick(r, []string{"1", "-1", "99999999999999999999", "x", ""}), "RESOLUTION=" + pick(r, []string{"1x1", "x", "1920x", ""}), "CODECS=\"avc1,mp4a\"", "TYPE=" + pick(r, []string{"AUDIO", "VIDEO", "SUBTITLES", "CLOSED-CAPTIONS", "x"}),
				"GROUP-ID=\"g\"", "NAME=\"n\"", "DEFAULT=YES", "AUDIO=\"g\"", "SUBTITLES=\"g\"", "BYTERANGE=\"" + pick(r, []string{"10@0", "@", "x", "-1@-1"}) + "\"", "TIME-OFFSET=" + pick(r, []string{"0", "-1.5", "x"}),
				"ID=\"d\"", "START-DATE=\"" + pick(r, []string{"2020-01-01T00:00:00Z", "x", ""}) + "\"", "DURATION=" + pick(r, []string{"1", "-1", "x"}), "PROGRAM-ID=1", "\"", "=", ",", "A=\"unterminated"}))
		}
		return strings.Join(as, ",")
	}
	tags := []func() string{
		func() string { return "#EXTM3U" },
		func() string { return "#EXT-X-VERSION:" + pick(r, []string{"3", "7", "x", "", "-1"}) },
		func() string { return "#EXT-X-TARGETDURATION:" + pick(r, []string{"10", "x", "", "-1", "1e99"}) },
		func() string { return "#EXT-X-MEDIA-SEQUENCE:" + pick(r, []string{"0", "x", "99999999999999999999"}) },
		func() string { return "#EXT-X-DISCONTINUITY-SEQUENCE:" + pick(r, []string{"0", "x"}) },
		func() string { return "#EXT-X-PLAYLIST-TYPE:" + pick(r, []string{"VOD", "EVENT", "x"}) },
		func() string { return "#EXT-X-KEY:" + attr() },
		func() string { return "#EXT-X-SESSION-KEY:" + attr() },
		func() string { return "#EXT-X-MAP:" + attr() },
		func() string { return "#EXT-X-BYTERANGE:" + pick(r, []string{"10@0", "10", "x", "@"}) },
		func() string { return "#EXT-X-DISCONTINUITY" },
		func() string { return "#EXT-X-PROGRAM-DATE-TIME:" + pick(r, []string{"2020-01-01T00:00:00Z", "x", ""}) },
		func() string { return "#EXT-X-DATERANGE:" + attr() },
		func() string { return "#EXT-X-GAP" },
		func() string { return "#EXT-X-I-FRAMES-ONLY" },
		func() string { return "#EXT-X-INDEPENDENT-SEGMENTS" },
		func() string { return "#EXT-X-START:" + attr() },
		func() string { return "#EXT-X-ENDLIST" },
		func() string { return "#EXT-X-MEDIA:" + attr() },
		func() string { return "#EXT-X-STREAM-INF:" + attr() },
		func() string { return "#EXT-X-I-FRAME-STREAM-INF:" + attr() },
		func() string { return "#EXT-X-SESSION-DATA:" + attr() },
		func() string { return "#EXT-X-ALLOW-CACHE:" + pick(r, []string{"YES", "NO", "x"}) },
		func() string { return "#EXTINF:" + pick(r, []string{"9.009,", "9,title", "x,", ",", "", "-1,"}) },
		func() string { return "#EXT-X-CUE-OUT:" + pick(r, []string{"30", "x", ""}) },
		func() string { return "#EXT-X-CUE-IN" },
		func() string { return "#EXT-OATCLS-SCTE35:" + pick(r, []string{"/DA0AAAA", "x"}) },
		func() string { return "# comment" },
		func() string { return "" },
		uri, uri, uri,
	}
	var b strings.Builder
	if r.Intn(8) != 0 {
		b.WriteString("#EXTM3U\n")
	}
	for i := 0; i < 1+r.Intn(14); i++ {
		b.WriteString(tags[r.Intn(len(tags))]())
		b.WriteString(pick(r, []string{"\n", "\n", "\n", "\r\n"}))
	}
	return []byte(b.String())
}

var c10SiteKeys = []string{"id", "url", "uri", "data", "children", "dist", "permalink", "kind", "media_attachments", "external_video_id", "type", "resourceUrl", "resourceThumbnail", "embedUrl", "username", "acct", "account", "avatar", "header", "fields", "value", "name", "group", "emojis", "preview_url", "remote_url", "meta", "original", "card", "reblog", "quote", "after", "before"}

func c10Bomb(r *rand.Rand) []byte {
	n := 2000 + r.Intn(20000)
	switch r.Intn(8) {
	case 0:
		return []byte(strings.Repeat("[", n))
	case 1:
		return []byte(strings.Repeat(`{"a":`, n/3))
	case 2:
		return []byte(strings.Repeat("<a>", n/2))
	case 3:
		return []byte("<html><body>" + strings.Repeat("<div style=\"background:url(", n/20) + "</body></html>")
	case 4:
		return []byte("#EXTM3U\n" + strings.Repeat("#EXT-X-STREAM-INF:BANDWIDTH=1\n", n/20))
	case 5:
		return []byte(`{"k":"` + strings.Repeat(`{\"a\":[`, n/8) + `"}`)
	case 6:
		return []byte("<?xml version=\"1.0\"?><!DOCTYPE x [<!ENTITY a \"" + strings.Repeat("&a;", 50) + "\">]><x>&a;" + strings.Repeat("http://h.example/a ", n/20) + "</x>")
	default:
		return []byte(strings.Repeat("http://h.example/"+strings.Repeat("a", 50)+" ", n/60))
	}
}

var c10CTypes = []string{"text/html", "text/html; charset=utf-8", "application/json", "application/xml", "text/xml", "application/rss+xml", "application/vnd.apple.mpegurl", "application/x-mpegURL", "application/pdf", "text/plain", "application/octet-stream", "", "image/svg+xml", "text/css", "application/xhtml+xml", "text/html;;;", "\x00", "application/json; charset=\"", "multipart/form-data; boundary="}

func c10HostileText(r *rand.Rand) string {
	switch r.Intn(6) {
	case 0:
		return genMutated(r)
	case 1:
		b := make([]byte, r.Intn(40))
		r.Read(b)
		return string(b)
	case 2:
		return "http://" + strings.Repeat("a.", 200) + "example/" + strings.Repeat("%41", 100)
	case 3:
		return pick(r, []string{"", " ", "#", "?", "//", "///", "http://", "http:///", "http://[", "http://[::1", "http://a.example:99999/", "http://a.example:-1/", "http://%zz.example/", "\\\\unc\\path", "http://a.example/\x00", "javascript:alert(1)", "http://ex ample.com/", "http://xn--.example/", "http://a..example/", "http://.example/", "http://a.example./", "HTTP://A.EXAMPLE/%E0%A4%A"})
	default:
		return genWFAbsolute(r).String() + pick(r, genOddPieces)
	}
}

func c10GenCase(seed int64, idx int) c10Case {
	r := rand.New(rand.NewSource(vc.DeriveSeed(seed, "C10", "case", idx)))
	tg := &tokGen{prefix: fmt.Sprintf("z%d", idx)}
	var c c10Case
	c.Status = []int{200, 200, 200, 200, 301, 302, 307, 308, 300, 404, 500, 204, 206, 999, 0, -1}[r.Intn(16)]
	c.Header = http.Header{}
	var base []byte
	siteURL := "" // set by generators whose body belongs to a site-specific extractor
	switch k := r.Intn(12); k {
	case 0:
		d, _ := c07GenDoc(r, tg, "https://pages.example/a/b.html", c07Scenario{ExoticForms: true})
		base, c.Kind = []byte(d), "html"
		c.Header.Set("Content-Type", "text/html")
	case 1:
		base, _ = genJSONDoc(r, tg, 2+r.Intn(10))
		c.Kind = "json"
		c.Header.Set("Content-Type", "application/json")
	case 2:
		var k2 string
		base, _, k2 = genXMLDoc(r, tg)
		c.Kind = "xml-" + k2
		c.Header.Set("Content-Type", "application/xml")
	case 3:
		base, _, _ = genM3U8(r, tg)
		c.Kind = "m3u8"
		if r.Intn(2) == 0 {
			base, c.Kind = c10M3U8Soup(r), "m3u8-tag-soup"
		}
		c.Header.Set("Content-Type", pick(r, []string{"application/vnd.apple.mpegurl", "application/x-mpegURL", "audio/mpegurl"}))
	case 4:
		base, c.Kind = c10Samples.pdf, "pdf"
		c.Header.Set("Content-Type", "application/pdf")
	case 5:
		b := &s3Bucket{Host: "b.s3.example", Size: map[string]int{}, PageSize: 3, Mode: "v2-delimiter"}
		for i := 0; i < 6; i++ {
			k := fmt.Sprintf("%s%d.txt", pick(r, []string{"", "a/", "b/c/"}), i)
			b.Keys = append(b.Keys, k)
			b.Size[k] = i
		}
		base, c.Kind = []byte(b.list(url.Values{"list-type": {"2"}, "delimiter": {"/"}})), "s3"
		c.Header.Set("Content-Type", "application/xml")
		c.Header.Set("Server", "AmazonS3")
	case 6:
		base, c.Kind = c10Samples.rss, "rss-sample"
		c.Header.Set("Content-Type", "application/rss+xml")
	case 7:
		base, c.Kind = c10Bomb(r), "bomb"
		c.Header.Set("Content-Type", pick(r, c10CTypes))
	case 8:
		base = make([]byte, r.Intn(4096))
		r.Read(base)
		c.Kind = "random-bytes"
		c.Header.Set("Content-Type", pick(r, c10CTypes))
	case 9:
		base, c.Kind = []byte("see "+c10HostileText(r)+" and "+c10HostileText(r)+"\n<a href='"+c10HostileText(r)+"'>x</a>"), "hostile-links"
		c.Header.Set("Content-Type", pick(r, []string{"text/plain", "text/html"}))
	case 10: // site-specific JSON shapes
		base = []byte(pick(r, []string{
			`{"data":{"children":[{"data":{"permalink":"/r/x/comments/1"}}]}}`, `{"data":{"children":[]}}`, `{"data":null}`, `{"id":"123","media_attachments":[{"external_video_id":"v1"}]}`,
			`{"resourceUrl":"https://m.example/a.mp4","resourceThumbnail":"t.jpg","embedUrl":"/embed/1","uri":"u"}`, `{"media_attachments":"x"}`, `[]`, `null`, `{"id":{}}`}))
		c.Kind = "sitespecific-json"
		if r.Intn(3) == 0 {
			// the keys the site-specific extractors read, each with a value of any JSON type
			var val func(d int) string
			val = func(d int) string {
				switch x := r.Intn(9); {
				case x == 0:
					return "null"
				case x == 1:
					return pick(r, []string{"0", "-1", "1e400", "3.7", "99999999999999999999"})
				case x == 2:
					return pick(r, []string{"true", "false"})
				case x == 3 && d < 3:
					return "[" + val(d+1) + "," + val(d+1) + "]"
				case x == 4 && d < 3:
					return "[]"
				case x == 5 && d < 3:
					return "{" + fmt.Sprintf("%q:%s,%q:%s", pick(r, c10SiteKeys), val(d+1), pick(r, c10SiteKeys), val(d+1)) + "}"
				default:
					return fmt.Sprintf("%q", pick(r, []string{"", "abc", "/r/x/comments/1/t/", "https://m.example/a.mp4", "v1", c10HostileText(r)}))
				}
			}
			var kv []string
			for k := 0; k < 1+r.Intn(6); k++ {
				kv = append(kv, fmt.Sprintf("%q:%s", pick(r, c10SiteKeys), val(0)))
			}
			base = []byte("{" + strings.Join(kv, ",") + "}")
			c.Kind = "sitespecific-json-key-soup"
			siteURL = pick(r, []string{"https://www.reddit.com/api/info.json?id=t3_abc", "https://truthsocial.com/api/v1/statuses/123", "https://truthsocial.com/api/v1/accounts/lookup?acct=abc", "https://apipartner.ina.fr/assets/x", "https://truthsocial.com/@user/posts/123"})
		} else if r.Intn(2) == 0 {
			// listing shapes with a declared count next to the array it counts: the two are independent
			// server-controlled fields (count below, equal to, above the number of elements, negative, huge)
			k := r.Intn(4)
			var kids []string
			for i := 0; i < k; i++ {
				kids = append(kids, fmt.Sprintf(`{"kind":"t3","data":{"permalink":"/r/x/comments/%d/t/","url":"https://i.example/%d.png","id":"%d"}}`, i, i, i))
			}
			dist := []int{-1, 0, 1, 2, k, k + 1, k + 7, 1000000}[r.Intn(8)]
			base = []byte(fmt.Sprintf(`{"kind":"Listing","data":{"after":null,"dist":%d,"modhash":"","children":[%s],"before":null},"count":%d,"total":%d}`, dist, strings.Join(kids, ","), dist, dist))
			c.Kind = "sitespecific-json-counted-listing"
			siteURL = pick(r, []string{"https://www.reddit.com/api/info.json?id=t3_abc", "https://www.reddit.com/api/info.json?id=t3_abc", "https://old.reddit.com/api/info.json?id=t3_x1", "https://www.reddit.com/r/x/"})
		}
		c.Header.Set("Content-Type", "application/json")
	default:
		base, c.Kind = []byte{}, "empty"
		c.Header.Set("Content-Type", pick(r, c10CTypes))
	}
	c.Body = base
	if r.Intn(5) != 0 && len(base) > 0 {
		c.Body = c10Mutate(r, base)
		c.Kind += "+mutated"
	}
	if r.Intn(3) == 0 {
		c.Header.Set("Content-Type", pick(r, c10CTypes))
		c.Kind += "+ctype"
	}
	if r.Intn(4) == 0 {
		c.Header.Set("Link", pick(r, []string{"<" + c10HostileText(r) + ">; rel=\"next\"", c10HostileText(r), "<>;", ";;;,,,<", "<a>; rel", "<http://l.example/x>; rel=next, <" + c10HostileText(r) + ">", strings.Repeat("<x>; a=b, ", 500)}))
	}
	if c.Status >= 300 && c.Status < 400 || r.Intn(10) == 0 {
		c.Header.Set("Location", c10HostileText(r))
	}
	if r.Intn(6) == 0 {
		c.Header.Set("Server", pick(r, []string{"AmazonS3", "WasabiS3", "UploadServer", "Windows-Azure-Blob", "nginx", "\x00"}))
	}
	c.SeedURL = pick(r, []string{
		"https://pages.example/a/b.html", "https://pages.example/", "https://api.example/v1/data.json", "https://video.example/hls/list.m3u8",
		"https://docs.example/f.pdf", "https://bucket.s3.example/?list-type=2&delimiter=%2F", "https://bucket.s3.example/?marker=a",
		"https://truthsocial.com/api/v1/statuses/123", "https://truthsocial.com/@user/posts/123", "https://truthsocial.com/@user", "https://truthsocial.com/api/v1/accounts/lookup?acct=abc",
		"https://apipartner.ina.fr/assets/x", "https://www.reddit.com/api/info.json?id=t3_abc", "https://www.reddit.com/r/x/", "https://pages.example/sitemap.xml",
	}) + fmt.Sprintf("?case=%d", idx)
	if siteURL != "" && r.Intn(4) != 0 {
		c.SeedURL = siteURL + fmt.Sprintf("?case=%d", idx)
	}
	if strings.Count(c.SeedURL, "?") > 1 {
		c.SeedURL = strings.Replace(c.SeedURL, fmt.Sprintf("?case=%d", idx), fmt.Sprintf("&case=%d", idx), 1)
	}
	if strings.Contains(c.SeedURL, "lookup?acct=abc") || strings.Contains(c.SeedURL, "statuses/123") {
		c.SeedURL = strings.Split(c.SeedURL, "&case")[0] // these dispatch on an anchored regex
		c.SeedURL = strings.Split(c.SeedURL, "?case")[0]
	}
	// children (depth 1/2) sometimes get hostile structured bodies too
	if r.Intn(3) == 0 {
		c.ChildHdr = http.Header{"Content-Type": {pick(r, []string{"application/json", "application/xml", "application/vnd.apple.mpegurl", "text/html", "application/pdf"})}}
		var cb []byte
		switch r.Intn(4) {
		case 0:
			cb, _ = genJSONDoc(r, tg, 4)
		case 1:
			cb, _, _ = genXMLDoc(r, tg)
		case 2:
			cb, _, _ = genM3U8(r, tg)
		default:
			cb = c10Samples.pdf
		}
		c.ChildBod = c10Mutate(r, cb)
	}
	return c
}

// errReader fails or stalls like a broken connection.
type errReader struct {
	data []byte
	pos  int
	mode int
}

func (e *errReader) Read(p []byte) (int, error) {
	if e.pos >= len(e.data) {
		switch e.mode {
		case 0:
			return 0, io.ErrUnexpectedEOF
		case 1:
			return 0, fmt.Errorf("connection reset by peer")
		default:
			return 0, io.EOF
		}
	}
	n := copy(p, e.data[e.pos:min(len(e.data), e.pos+1+e.mode*700)])
	e.pos += n
	return n, nil
}
func (e *errReader) Close() error { return nil }

func c10Child(scPath string) int {
	var sc c10Scenario
	if err := readJSON(scPath, &sc); err != nil {
		return 2
	}
	dir := os.Getenv("VZ_CHILD_DIR")
	c10LoadSamples()
	if sc.DumpTo != "" {
		os.WriteFile(sc.DumpTo, c10GenCase(sc.Seed, sc.Start).Body, 0o644)
		return 0
	}
	rep := newReport()
	zenoConfig(dir, false, func(c *config.Config) {
		c.WorkersCount = 2
		c.MaxHops = 1
	})
	h, err := startStages(true)
	if err != nil {
		rep.violation("harness/start", err.Error(), nil)
		rep.write(dir)
		return 0
	}
	curPath := filepath.Join(dir, "current")
	var cur atomic.Int64
	cur.Store(-1)
	var caseCPUStart atomic.Int64
	cpuNow := func() int64 {
		var ru syscall.Rusage
		syscall.Getrusage(syscall.RUSAGE_SELF, &ru)
		return int64(ru.Utime.Sec+ru.Stime.Sec)*1000 + int64(ru.Utime.Usec+ru.Stime.Usec)/1000
	}
	// hang watchdog: CPU time spent and memory grown since the current input started
	memLimit := int64(sc.MemLimitMB) << 20
	go func() {
		for {
			time.Sleep(100 * time.Millisecond)
			if cur.Load() < 0 {
				continue
			}
			reason := ""
			if cpuNow()-caseCPUStart.Load() > int64(sc.CPUBudget)*1000 {
				reason = "cpu"
			} else if rssBytes() > memLimit {
				reason = "memory"
			}
			if reason != "" {
				// several dumps: the frame that owns the loop is the innermost one common to all of them
				var all []byte
				for k := 0; k < 8; k++ {
					buf := make([]byte, 4<<20)
					buf = buf[:runtime.Stack(buf, true)]
					all = append(all, []byte(fmt.Sprintf("\n\n=====DUMP %d=====\n\n", k))...)
					all = append(all, buf...)
					time.Sleep(150 * time.Millisecond)
				}
				os.WriteFile(filepath.Join(dir, "hang-stacks.txt"), all, 0o644)
				os.WriteFile(filepath.Join(dir, "hang"), []byte(strconv.FormatInt(cur.Load(), 10)+" "+reason), 0o644)
				os.Exit(3)
			}
		}
	}()
	var maxCPU int64
	for i := sc.Start; i < sc.End; i++ {
		os.WriteFile(curPath, []byte(strconv.Itoa(i)), 0o644)
		caseCPUStart.Store(cpuNow())
		cur.Store(int64(i))
		c := c10GenCase(sc.Seed, i)
		if sc.WitnessFile != "" {
			b, _ := os.ReadFile(sc.WitnessFile)
			c = c10Case{Status: 200, Header: http.Header{"Content-Type": {"application/pdf"}}, Body: b, Kind: "recorded-witness", SeedURL: "https://docs.example/witness.pdf"}
		}
		// configuration is part of the input space: every fifth input is served to a crawler that does not
		// capture assets and is at its hop limit (the stages are idle between inputs, so the two word-sized
		// stores do not race with them)
		cfgNow := config.Get()
		cfgNow.DisableAssetsCapture, cfgNow.MaxHops = false, 1
		if i%5 == 4 {
			cfgNow.DisableAssetsCapture, cfgNow.MaxHops = true, 0
		}
		seed, err := newSeed(fmt.Sprintf("k%d", i), c.SeedURL, "", 0)
		if err == nil {
			cr := h.crawl(seed, func(it *models.Item, wire string) *fakeResp {
				if it.GetDepth() == 0 {
					return &fakeResp{Status: c.Status, Header: c.Header.Clone(), Body: c.Body}
				}
				if c.ChildBod != nil && it.GetDepth() <= 2 {
					return &fakeResp{Status: 200, Header: c.ChildHdr.Clone(), Body: c.ChildBod}
				}
				return leafResp()
			}, 8)
			rep.event("requests", len(cr.Requests))
			rep.event("outlinks", len(cr.Outlinks))
			if cr.Finished {
				rep.event("finished", 1)
			} else {
				rep.event("unfinished:"+truncate(cr.Err, 40), 1)
			}
			if strings.HasPrefix(cr.Err, "finisher consistency:") {
				// the harness plays the finisher; the real one panics on exactly this check
				// (finisher.go: "seed consistency check failed"), which ends the process
				w := c10Witness(sc.Seed, i)
				w["tree"] = seed.DrawTreeWithStatus()
				rep.violation("crash/finisher-consistency-panic", fmt.Sprintf("input %d (%s, status %d, assets capture off=%v, max-hops=%d) leaves the stages with a tree on which the finisher's consistency check panics: %s", i, c.Kind, c.Status, cfgNow.DisableAssetsCapture, cfgNow.MaxHops, cr.Err), w)
			}
		}
		// direct: NormalizeURL on hostile text with a hostile-ish parent, ProcessBody on failing readers
		rr := rand.New(rand.NewSource(vc.DeriveSeed(sc.Seed, "C10", "direct", i)))
		for k := 0; k < 4; k++ {
			u := &models.URL{Raw: c10HostileText(rr)}
			var parent *models.URL
			if rr.Intn(2) == 0 {
				parent = &models.URL{Raw: genWFAbsolute(rr).String()}
				if preprocessor.NormalizeURL(parent, nil) != nil {
					parent = nil
				}
			}
			if preprocessor.NormalizeURL(u, parent) == nil {
				_ = u.String()
			}
		}
		{
			u := &models.URL{Raw: "https://pages.example/x"}
			u.Parse()
			u.SetResponse(&http.Response{StatusCode: 200, Header: http.Header{}, Body: &errReader{data: c.Body, mode: rr.Intn(4)}})
			if archiver.ProcessBody(u, rr.Intn(2) == 0, false, rr.Intn(2), config.Get().WARCTempDir) == nil && u.GetBody() != nil {
				u.GetBody().Close()
			}
		}
		rep.Evaluations++
		rep.distinct(c.Kind)
		if d := cpuNow() - caseCPUStart.Load(); d > maxCPU {
			maxCPU = d
		}
		if i%5000 == 11 {
			rep.sample(map[string]any{"index": i, "kind": c.Kind, "status": c.Status, "seed_url": c.SeedURL, "headers": c.Header, "body_b64_prefix": base64.StdEncoding.EncodeToString(c.Body[:min(len(c.Body), 96)])}, 2)
		}
	}
	cur.Store(-1)
	rep.Extra["max_cpu_ms_per_input"] = maxCPU
	if left := h.tempFiles(); len(left) > 0 {
		rep.Extra["temp_files_left"] = len(left)
	}
	rep.write(dir)
	return 0
}

func c10Witness(seed int64, idx int) map[string]any {
	c10LoadSamples()
	c := c10GenCase(seed, idx)
	return map[string]any{"index": idx, "kind": c.Kind, "status": c.Status, "seed_url": c.SeedURL, "headers": c.Header, "body_len": len(c.Body), "body_b64": base64.StdEncoding.EncodeToString(c.Body[:min(len(c.Body), 3000)]),
		"child_headers": c.ChildHdr, "child_body_b64": base64.StdEncoding.EncodeToString(c.ChildBod[:min(len(c.ChildBod), 3000)])}
}

func c10(r *vc.Run) int {
	total := r.N(48000, 1500000)
	nWorkers := 14
	per := total / nWorkers
	budget := 20
	memMB := 2048
	m := newMerged()
	var maxCPU atomic.Int64
	var confirmedMu sync.Mutex
	confirmed := map[string]bool{}
	// the recorded witnesses of the listed pdfcpu findings (committed files, independent of the generators)
	// are replayed on every run, whatever VERIF_SEED is
	wdir := filepath.Join(os.Getenv("VERIF_DIR"), "witnesses")
	if wf := filepath.Join(wdir, "C10-pdfcpu-parseArray-hang.pdf"); r.IsKnown("hang@internal/pkg/postprocessor/extractor.PDF->pdfcpu/pdfcpu/pkg/api") && fileExists(wf) {
		sc := c10Scenario{Seed: 1, Start: 0, End: 1, CPUBudget: budget, MemLimitMB: memMB, WitnessFile: wf}
		dir := filepath.Join(r.Scratch, "c10-witness-hang")
		runChild(os.Getenv("VZ_BIN"), "c10", sc, dir, 10*time.Minute)
		if hb, err := os.ReadFile(filepath.Join(dir, "hang")); err == nil && len(hb) > 0 {
			st, _ := os.ReadFile(filepath.Join(dir, "hang-stacks.txt"))
			r.Violation("hang@"+hangFrame(string(st)), fmt.Sprintf("recorded witness %s still spins in %s", filepath.Base(wf), hangFrame(string(st))), map[string]any{"witness_file": wf})
		} else {
			r.Note("recorded witness %s no longer hangs", filepath.Base(wf))
		}
	}
	if wf := filepath.Join(wdir, "C10-pdfcpu-out-of-memory.pdf"); fileExists(wf) {
		sc := c10Scenario{Seed: 1, Start: 0, End: 1, CPUBudget: budget, MemLimitMB: memMB, WitnessFile: wf}
		dir := filepath.Join(r.Scratch, "c10-witness-oom")
		res := runChild(os.Getenv("VZ_BIN"), "c10", sc, dir, 10*time.Minute)
		if crashed, excerpt := res.Crashed(); crashed {
			r.Violation("crash/"+crashSig(res.Stderr), fmt.Sprintf("recorded witness %s killed the process: %s", filepath.Base(wf), truncate(excerpt, 300)), map[string]any{"witness_file": wf})
		} else {
			r.Note("recorded witness %s no longer crashes", filepath.Base(wf))
		}
	}
	parallel(nWorkers, nWorkers, func(w int) {
		start, end := w*per, (w+1)*per
		restarts, hangs := 0, 0
		for start < end && restarts < 60 && hangs < 4 {
			sc := c10Scenario{Seed: r.Seed, Start: start, End: end, CPUBudget: budget, MemLimitMB: memMB}
			dir := filepath.Join(r.Scratch, fmt.Sprintf("c10-%d-%d", w, restarts))
			res := runChild(os.Getenv("VZ_BIN"), "c10", sc, dir, 40*time.Minute)
			curB, _ := os.ReadFile(filepath.Join(dir, "current"))
			curIdx, _ := strconv.Atoi(strings.TrimSpace(string(curB)))
			if hb, err := os.ReadFile(filepath.Join(dir, "hang")); err == nil {
				f := strings.Fields(string(hb))
				idx, _ := strconv.Atoi(f[0])
				reason := "cpu"
				if len(f) > 1 {
					reason = f[1]
				}
				st, _ := os.ReadFile(filepath.Join(dir, "hang-stacks.txt"))
				sig := "hang@" + hangFrame(string(st))
				_ = reason
				what := fmt.Sprintf("input %d (%s): more than %d s CPU / %d MiB resident on one input of %d bytes, spinning in %s", idx, c10GenCase(r.Seed, idx).Kind, budget, memMB, len(c10GenCase(r.Seed, idx).Body), hangFrame(string(st)))
				confirmedMu.Lock()
				already := confirmed[sig]
				confirmedMu.Unlock()
				hangs++
				if r.IsKnown(sig) || already {
					// a listed finding, or a call site already confirmed in this run: no second confirmation
					r.Note("listed/confirmed hang %s at input %d of seed %d", sig, idx, r.Seed)
					r.Violation(sig, what, c10Witness(r.Seed, idx))
				} else {
					// confirm alone with 5x the CPU budget and twice the memory
					sc2 := c10Scenario{Seed: r.Seed, Start: idx, End: idx + 1, CPUBudget: budget * 5, MemLimitMB: memMB * 2}
					res2 := runChild(os.Getenv("VZ_BIN"), "c10", sc2, dir+"-confirm", 30*time.Minute)
					if _, err := os.ReadFile(filepath.Join(dir+"-confirm", "hang")); err == nil || res2.TimedOut {
						w := c10Witness(r.Seed, idx)
						w["stacks"] = truncate(string(st), 6000)
						r.Violation(sig, what+" (confirmed alone with 5x CPU, 2x memory)", w)
						confirmedMu.Lock()
						confirmed[sig] = true
						confirmedMu.Unlock()
					} else {
						r.Inconclusive("budget-not-confirmed")
					}
				}
				m.mu.Lock()
				m.Evaluations += idx - start
				m.Distinct["hanging:"+c10GenCase(r.Seed, idx).Kind]++
				m.mu.Unlock()
				start = idx + 1
				restarts++
				continue
			}
			if crashed, excerpt := res.Crashed(); crashed {
				sig := "crash/" + crashSig(res.Stderr)
				r.Violation(sig, fmt.Sprintf("input %d (%s) killed the process: %s", curIdx, c10GenCase(r.Seed, curIdx).Kind, truncate(excerpt, 700)),
					map[string]any{"case": c10Witness(r.Seed, curIdx), "stderr_tail": tail(res.Stderr, 5000)})
				m.mu.Lock()
				m.Evaluations += curIdx - start + 1
				m.Distinct["crashing:"+c10GenCase(r.Seed, curIdx).Kind]++
				m.mu.Unlock()
				start = curIdx + 1
				restarts++
				continue
			}
			rep := absorb(r, m, res, fmt.Sprintf("worker%d", w), sc, true)
			if rep != nil {
				if v, ok := rep.Extra["max_cpu_ms_per_input"].(float64); ok && int64(v) > maxCPU.Load() {
					maxCPU.Store(int64(v))
				}
			}
			break
		}
		if restarts >= 60 || hangs >= 4 {
			r.Note("worker %d stopped early after %d crashing/hanging inputs (%d hangs): inputs %d..%d not run", w, restarts, hangs, start, end)
		}
	})
	// the C++ URL parser under AddressSanitizer
	asanCases := 0
	if bin := os.Getenv("VZ_BIN_ASAN"); bin != "" {
		nURL := r.N(60000, 1200000)
		parts := 6
		var amu sync.Mutex
		parallel(parts, parts, func(w int) {
			start, end := w*nURL/parts, (w+1)*nURL/parts
			for start < end {
				sc := c10Scenario{Seed: r.Seed, Start: start, End: end}
				dir := filepath.Join(r.Scratch, fmt.Sprintf("c10url-%d-%d", w, start))
				res := runChild(bin, "c10-url", sc, dir, 20*time.Minute, "ASAN_OPTIONS=detect_leaks=0:abort_on_error=0:halt_on_error=1")
				var rep childReport
				if readJSON(filepath.Join(dir, "report.json"), &rep) == nil && rep.Done {
					amu.Lock()
					asanCases += rep.Evaluations
					amu.Unlock()
					break
				}
				curB, _ := os.ReadFile(filepath.Join(dir, "current"))
				win, _ := strconv.Atoi(strings.TrimSpace(string(curB)))
				kind := "crash"
				if strings.Contains(res.Stderr, "AddressSanitizer") {
					kind = "asan"
				}
				var texts []string
				for k := win; k < win+64 && k < end; k++ {
					t, p := c10URLText(r.Seed, k)
					texts = append(texts, fmt.Sprintf("%q parent=%q", t, p))
				}
				r.Violation(kind+"/url-parser@"+crashSig(res.Stderr), fmt.Sprintf("NormalizeURL under AddressSanitizer died on one of the URL texts %d..%d: %s", win, win+63, truncate(tail(res.Stderr, 1500), 1500)), map[string]any{"window": texts})
				amu.Lock()
				asanCases += win - start
				amu.Unlock()
				start = win + 64
			}
		})
	}
	cov := map[string]any{
		"url_texts_under_asan": asanCases,
		"evaluations":          m.Evaluations,
		"distinct_nontrivial":  len(m.Distinct),
		"rule":                 "one evaluation = one hostile response (generated / mutated HTML, JSON, XML, RSS, sitemap, S3 listing, M3U8, PDF, nesting bombs, random bytes, site-specific JSON; arbitrary status, Content-Type, Link, Location, Server) served to the real preprocessor+postprocessor stages for generic and site-specific URLs, plus NormalizeURL on hostile texts and ProcessBody on failing readers; distinct = distinct input kinds (generator + mutation + header variation)",
		"samples":              m.Samples,
		"events":               m.Events,
		"kinds":                m.Distinct,
		"max_cpu_ms_per_input": maxCPU.Load(),
		"cpu_budget_s":         budget,
	}
	if cov["samples"] == nil {
		cov["samples"] = []any{}
	}
	return r.Finish("exploration", cov, []string{
		"a crash is any panic / fatal error in the child process (the stage workers have no recover, as in production)",
		"'spins forever' = more than 20 s of CPU, or more than 2 GiB resident, on one input of at most 64 KiB, confirmed alone with 5x the CPU budget and 2x the memory (unless it is a listed finding); CPU time, not wall time",
		"inputs are regenerable from (VERIF_SEED, index); no coverage-guided fuzzing (go test -fuzz wants to write its corpus into the package directory, which the overlay build does not have)",
		"the cgo WHATWG URL parser behind NormalizeURL additionally runs on hostile URL texts in an AddressSanitizer build (-asan): a sanitizer report is process-fatal and counts as a crash",
	}, 20)
}

var _ = bytes.NewReader

func fileExists(p string) bool { _, err := os.Stat(p); return err == nil }
