package checks

import (
	"fmt"
	"math/rand"
	"os"
	"path/filepath"
	"runtime"
	"sync"
	"sync/atomic"
	"time"

	"github.com/anishathalye/porcupine"
	"github.com/internetarchive/Zeno/internal/pkg/stats"
	"github.com/internetarchive/Zeno/internal/pkg/verifhook"
	"github.com/internetarchive/Zeno/internal/verif/vc"
)

// C17 — operational counters are exact under concurrency (unit level).
//
// Histories of incr/decr/add/get/reset issued by 8-32 goroutines against the real primitives behind
// the stats package (through the verif export shim), recorded at the call boundary and checked with
// porcupine against sequential models; plus bulk bursts whose quiescent totals must equal the number
// of events. Reads taken in the middle of a burst of the two-word mean are recorded but left
// unconstrained (the statement speaks about values after the burst); all reads after quiescence, and
// all reads of single-word counters, are constrained.

func init() {
	register("C17", c17)
	registerChild("c17", c17Child)
}

type c17In struct {
	Op  string
	Key string
	N   uint64
	Any bool // output unconstrained
}

type c17Rec struct {
	mu  sync.Mutex
	ops []porcupine.Operation
	ts  atomic.Int64
}

func (h *c17Rec) do(client int, in c17In, f func() any) any {
	call := h.ts.Add(1)
	out := f()
	ret := h.ts.Add(1)
	h.mu.Lock()
	h.ops = append(h.ops, porcupine.Operation{ClientId: client, Input: in, Call: call, Output: out, Return: ret})
	h.mu.Unlock()
	return out
}

// counter / total model: state uint64
var c17CounterModel = porcupine.Model{
	Init: func() any { return uint64(0) },
	Step: func(state, input, output any) (bool, any) {
		s := state.(uint64)
		in := input.(c17In)
		switch in.Op {
		case "incr":
			return true, s + in.N
		case "decr":
			return true, s - in.N
		case "reset":
			return true, uint64(0)
		case "reset-keeps-total":
			return true, s
		case "get":
			return in.Any || output.(uint64) == s, s
		}
		return false, s
	},
	DescribeOperation: func(i, o any) string { return fmt.Sprintf("%v -> %v", i, o) },
}

type c17MeanState struct{ Count, Sum uint64 }

var c17MeanModel = porcupine.Model{
	Init: func() any { return c17MeanState{} },
	Step: func(state, input, output any) (bool, any) {
		s := state.(c17MeanState)
		in := input.(c17In)
		switch in.Op {
		case "add":
			return true, c17MeanState{s.Count + 1, s.Sum + in.N}
		case "reset":
			return true, c17MeanState{}
		case "get":
			if in.Any {
				return true, s
			}
			want := 0.0
			if s.Count > 0 {
				want = float64(s.Sum) / float64(s.Count)
			}
			return output.(float64) == want, s
		}
		return false, s
	},
	DescribeOperation: func(i, o any) string { return fmt.Sprintf("%v -> %v", i, o) },
}

func c17History(rep *childReport, seed int64, idx int) {
	rng := rand.New(rand.NewSource(vc.DeriveSeed(seed, "C17", "h", idx)))
	kind := []string{"counter", "rate-total", "mean", "bucket"}[idx%4]
	goroutines := 8 + rng.Intn(25)
	opsPer := 1 + rng.Intn(3)
	withReset := rng.Intn(3) == 0
	if kind == "mean" { // every add creates a new (count,sum) state: keep the search space small
		goroutines = 6 + rng.Intn(7)
		opsPer = 1 + rng.Intn(2)
		withReset = rng.Intn(2) == 0
	}
	h := &c17Rec{}
	// schedule perturbation between the two words of the mean (hook points stats.mean.*.mid)
	if perturb := rng.Intn(3); perturb > 0 {
		var pc atomic.Uint64
		verifhook.SetHandler(func(point, id, url string, n int, item any) {
			x := pc.Add(1)
			if perturb == 1 || x%3 == 0 {
				runtime.Gosched()
			} else {
				time.Sleep(time.Duration(10+x%5*20) * time.Microsecond)
			}
		})
		defer verifhook.SetHandler(nil)
	}
	var cnt stats.VerifCounter
	var rt stats.VerifRate
	var mn stats.VerifMean
	bk := stats.NewVerifRateBucket()
	keys := []string{"200", "404", "503"}
	var wg sync.WaitGroup
	start := make(chan struct{})
	for g := 0; g < goroutines; g++ {
		wg.Add(1)
		gr := rand.New(rand.NewSource(rng.Int63()))
		go func(g int) {
			defer wg.Done()
			<-start
			for i := 0; i < opsPer; i++ {
				x := gr.Intn(10)
				n := uint64(1 + gr.Intn(3))
				switch kind {
				case "counter":
					switch {
					case x < 5:
						h.do(g, c17In{Op: "incr", N: n}, func() any { cnt.Incr(n); return nil })
					case x < 7:
						// a decrement only after this goroutine's own increment keeps the gauge non-negative
						h.do(g, c17In{Op: "incr", N: n}, func() any { cnt.Incr(n); return nil })
						h.do(g, c17In{Op: "decr", N: n}, func() any { cnt.Decr(n); return nil })
					case x < 9 || !withReset:
						h.do(g, c17In{Op: "get"}, func() any { return cnt.Get() })
					default:
						h.do(g, c17In{Op: "reset"}, func() any { cnt.Reset(); return nil })
					}
				case "rate-total":
					switch {
					case x < 6:
						h.do(g, c17In{Op: "incr", N: n}, func() any { rt.Incr(n); return nil })
					case x < 9 || !withReset:
						h.do(g, c17In{Op: "get"}, func() any { return rt.GetTotal() })
					default:
						h.do(g, c17In{Op: "reset-keeps-total"}, func() any { rt.Reset(); return nil })
					}
					if x == 3 {
						rt.Get() // per-second rate read: exercised, not part of the statement
					}
				case "mean":
					switch {
					case x < 6:
						v := uint64(1 + gr.Intn(3))
						h.do(g, c17In{Op: "add", N: v}, func() any { mn.Add(v); return nil })
					case x < 9 || !withReset:
						h.do(g, c17In{Op: "get", Any: true}, func() any { return mn.Get() })
					default:
						h.do(g, c17In{Op: "reset"}, func() any { mn.Reset(); return nil })
					}
				case "bucket":
					k := keys[gr.Intn(len(keys))]
					switch {
					case x < 6:
						h.do(g, c17In{Op: "incr", Key: k, N: n}, func() any { bk.Incr(k, n); return nil })
					case x < 9 || !withReset:
						h.do(g, c17In{Op: "get", Key: k}, func() any { return bk.GetTotal(k) })
					default:
						h.do(g, c17In{Op: "reset-keeps-total", Key: k}, func() any { bk.Reset(k); return nil })
					}
					if x == 4 {
						bk.GetFiltered("2*")
					}
				}
				if gr.Intn(3) == 0 {
					runtime.Gosched()
				}
			}
		}(g)
	}
	close(start)
	wg.Wait()
	// quiescent tail: read, one more event, read again
	ctl := goroutines + 1
	switch kind {
	case "counter":
		h.do(ctl, c17In{Op: "get"}, func() any { return cnt.Get() })
		h.do(ctl, c17In{Op: "incr", N: 1}, func() any { cnt.Incr(1); return nil })
		h.do(ctl, c17In{Op: "get"}, func() any { return cnt.Get() })
	case "rate-total":
		h.do(ctl, c17In{Op: "get"}, func() any { return rt.GetTotal() })
		h.do(ctl, c17In{Op: "incr", N: 1}, func() any { rt.Incr(1); return nil })
		h.do(ctl, c17In{Op: "get"}, func() any { return rt.GetTotal() })
	case "mean":
		h.do(ctl, c17In{Op: "get"}, func() any { return mn.Get() })
		h.do(ctl, c17In{Op: "add", N: 7}, func() any { mn.Add(7); return nil })
		h.do(ctl, c17In{Op: "get"}, func() any { return mn.Get() })
	case "bucket":
		for _, k := range keys {
			h.do(ctl, c17In{Op: "get", Key: k}, func() any { return bk.GetTotal(k) })
		}
		all := bk.GetAllTotal()
		for _, k := range keys {
			if all[k] != bk.GetTotal(k) {
				rep.violation("bucket/getAllTotal-differs", fmt.Sprintf("getAllTotal()[%s]=%d but getTotal=%d at quiescence", k, all[k], bk.GetTotal(k)), nil)
			}
		}
	}
	model := c17CounterModel
	if kind == "mean" {
		model = c17MeanModel
	}
	if kind == "bucket" {
		model.Partition = func(history []porcupine.Operation) [][]porcupine.Operation {
			m := map[string][]porcupine.Operation{}
			for _, op := range history {
				k := op.Input.(c17In).Key
				m[k] = append(m[k], op)
			}
			var out [][]porcupine.Operation
			for _, v := range m {
				out = append(out, v)
			}
			return out
		}
	}
	res := porcupine.CheckOperationsTimeout(model, h.ops, 20*time.Second)
	rep.Evaluations++
	rep.event(kind+"/ops", len(h.ops))
	overlap := 0
	for i, op := range h.ops {
		for j := 0; j < i; j++ {
			if h.ops[j].Return > op.Call && h.ops[j].Call < op.Return {
				overlap++
				break
			}
		}
	}
	rep.event(kind+"/overlapping_ops", overlap)
	if overlap > 0 {
		rep.distinct(fmt.Sprintf("%s/g%d/o%d/r%v/%d", kind, goroutines, opsPer, withReset, overlap))
	}
	desc := func() []string {
		l := []string{}
		for _, op := range h.ops {
			in := op.Input.(c17In)
			l = append(l, fmt.Sprintf("g%d [%d,%d] %s %s %d -> %v", op.ClientId, op.Call, op.Return, in.Op, in.Key, in.N, op.Output))
		}
		return l
	}
	switch res {
	case porcupine.Illegal:
		sig := kind + "/not-linearizable"
		if withReset {
			sig = kind + "/not-linearizable-with-reset"
		}
		rep.violation(sig, fmt.Sprintf("%s history of %d operations from %d goroutines has no sequential explanation", kind, len(h.ops), goroutines), map[string]any{"history": desc()})
	case porcupine.Unknown:
		rep.inconclusive("porcupine-timeout/" + kind)
	}
	if idx%211 == 0 {
		rep.sample(map[string]any{"kind": kind, "goroutines": goroutines, "history": desc()}, 3)
	}
}

// c17Burst: many goroutines, many events, quiescent totals must be exact.
func c17Burst(rep *childReport, seed int64, idx int) {
	rng := rand.New(rand.NewSource(vc.DeriveSeed(seed, "C17", "burst", idx)))
	goroutines := 8 + rng.Intn(25)
	per := 500 + rng.Intn(3000)
	var cnt stats.VerifCounter
	var rt stats.VerifRate
	var mn stats.VerifMean
	bk := stats.NewVerifRateBucket()
	var wg sync.WaitGroup
	var sum atomic.Uint64
	for g := 0; g < goroutines; g++ {
		wg.Add(1)
		go func(g int) {
			defer wg.Done()
			for i := 0; i < per; i++ {
				cnt.Incr(1)
				rt.Incr(1)
				v := uint64((g*31 + i) % 97)
				mn.Add(v)
				sum.Add(v)
				bk.Incr(fmt.Sprint(200+g%3), 1)
				if i%64 == 0 {
					rt.Get()
					mn.Get()
					bk.GetFiltered("2*")
				}
				cnt.Incr(2)
				cnt.Decr(2)
			}
		}(g)
	}
	wg.Wait()
	n := uint64(goroutines * per)
	rep.Evaluations++
	rep.event("burst/events", int(n)*4)
	rep.distinct(fmt.Sprintf("burst/g%d/n%d", goroutines, per))
	if cnt.Get() != n {
		rep.violation("burst/counter", fmt.Sprintf("counter=%d after %d increments", cnt.Get(), n), nil)
	}
	if rt.GetTotal() != n {
		rep.violation("burst/rate-total", fmt.Sprintf("total=%d after %d increments", rt.GetTotal(), n), nil)
	}
	c, s := mn.Raw()
	if c != n || s != sum.Load() || mn.Get() != float64(sum.Load())/float64(n) {
		rep.violation("burst/mean", fmt.Sprintf("mean count=%d sum=%d get=%v after %d adds totalling %d", c, s, mn.Get(), n, sum.Load()), nil)
	}
	var tot uint64
	for _, v := range bk.GetAllTotal() {
		tot += v
	}
	if tot != n {
		rep.violation("burst/bucket", fmt.Sprintf("per-key totals sum to %d after %d increments", tot, n), nil)
	}
}

type c17Scenario struct {
	Seed      int64 `json:"seed"`
	First     int   `json:"first"`
	Histories int   `json:"histories"`
	Bursts    int   `json:"bursts"`
}

func c17Child(scPath string) int {
	var sc c17Scenario
	if err := readJSON(scPath, &sc); err != nil {
		return 2
	}
	rep := newReport()
	for i := 0; i < sc.Histories; i++ {
		c17History(rep, sc.Seed, sc.First+i)
	}
	for i := 0; i < sc.Bursts; i++ {
		c17Burst(rep, sc.Seed, sc.First+i)
	}
	rep.write(os.Getenv("VZ_CHILD_DIR"))
	return 0
}

func c17(r *vc.Run) int {
	total := r.N(1600, 40000)
	nChildren := r.N(8, 32)
	per := total / nChildren
	m := newMerged()
	parallel(nChildren, 8, func(i int) {
		bin := os.Getenv("VZ_BIN")
		label := fmt.Sprintf("child%d", i)
		n, bursts := per, 6
		if i%2 == 0 && os.Getenv("VZ_BIN_RACE") != "" {
			bin = os.Getenv("VZ_BIN_RACE")
			label += "-race"
			n, bursts = per/2, 2
		}
		sc := c17Scenario{Seed: r.Seed, First: i * per, Histories: n, Bursts: bursts}
		res := runChild(bin, "c17", sc, filepath.Join(r.Scratch, fmt.Sprintf("c17-%d", i)), 15*time.Minute)
		absorb(r, m, res, label, sc, true)
	})
	// pipeline level: counters against the events of full-pipeline runs (same child as C01)
	pipeRuns := c01Matrix(r, r.N(6, 36))
	pm := newMerged()
	comparisons := 0
	var cmu sync.Mutex
	parallel(len(pipeRuns), 12, func(i int) {
		sc := pipeRuns[i]
		sc.Index += 5000
		sc.PauseBeforeStop = i%3 != 2
		dir := filepath.Join(r.Scratch, fmt.Sprintf("c17-pipe-%d", i))
		res := runChild(os.Getenv("VZ_BIN"), "pipe-c01", sc, dir, 6*time.Minute)
		sink := &discardSink{}
		rep := absorb(sink, pm, res, fmt.Sprintf("pipeline-run%d", i), sc, false)
		if rep != nil {
			cmu.Lock()
			comparisons += rep.Events["c17_counter_comparisons"]
			cmu.Unlock()
			if l, ok := rep.Extra["c17"].([]any); ok {
				for _, v := range l {
					if mm, ok := v.(map[string]any); ok {
						r.Violation(fmt.Sprint(mm["sig"]), fmt.Sprintf("pipeline-run%d: %v", i, mm["what"]), map[string]any{"scenario": sc})
					}
				}
			}
		} else {
			r.Inconclusive("pipeline-run-no-report")
		}
		os.RemoveAll(dir)
	})
	for s, n := range m.Races {
		if s == "harness-only" {
			r.Note("race report x%d with harness frames only (machinery defect, not Zeno)", n)
			continue
		}
		r.Violation("data-race/"+s, fmt.Sprintf("race detector report x%d in the stats primitives: %s", n, s), nil)
	}
	cov := map[string]any{
		"evaluations":                  m.Evaluations,
		"distinct_nontrivial":          len(m.Distinct),
		"rule":                         "one evaluation = one concurrent history (8-32 goroutines) on a real counter / rate total / mean / per-key bucket checked with porcupine, or one bulk burst with exact quiescent totals; distinct = distinct (primitive, goroutines, ops, reset?, number of overlapping operations) with at least one overlap",
		"samples":                      m.Samples,
		"events":                       m.Events,
		"children":                     m.Children,
		"pipeline_runs":                len(pipeRuns),
		"pipeline_counter_comparisons": comparisons,
		"pipeline_events":              map[string]int{"seeds_inserted": pm.Events["seeds_inserted"], "origin_requests": pm.Events["origin_requests"]},
	}
	if cov["samples"] == nil {
		cov["samples"] = []any{}
	}
	return r.Finish("exploration", cov, []string{
		"reads of the two-word mean taken during a burst are unconstrained; reads after quiescence and all single-word reads are constrained",
		"rate.reset() keeps the running total by design (model: reset leaves the total unchanged)",
		"in the stats package itself a race-detector report decides (the primitives have no benign races)",
		"pipeline level: at quiescence of full-pipeline runs, URLs crawled == archiver item goroutines ended, seeds finished == finish notifications, per-status totals == archived items, worker gauges == configured workers while running and 0 after stop, mean == sum/count",
	}, 50)
}
