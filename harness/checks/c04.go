package checks

import (
	"database/sql"
	"encoding/json"
	"fmt"
	"os"
	"path/filepath"
	"strings"
	"sync/atomic"
	"syscall"
	"time"

	"github.com/internetarchive/Zeno/internal/verif/vc"
	"github.com/internetarchive/Zeno/pkg/models"
)

// C04 — a stopped or killed job resumes all unfinished seeds; finished implies captured.
// Origin lives in the parent (survives the kills). Run 1 dies at an instrumented point (the hook
// handler SIGKILLs its own process at the n-th hit), at a seeded random time (SIGKILL from the
// parent) or stops gracefully; run 2 restarts the same job directory without input seeds.

func init() {
	register("C04", c04)
	registerChild("pipe-c04", c04Child)
}

type c04Scenario struct {
	Seed       int64      `json:"seed"`
	Index      int        `json:"index"`
	Cfg        pipeConfig `json:"cfg"`
	InputSeeds []string   `json:"input_seeds"`
	Triggers   []trigger  `json:"triggers"`
	Run        int        `json:"run"`
}

func c04Child(scPath string) int {
	var sc c04Scenario
	if err := readJSON(scPath, &sc); err != nil {
		return 2
	}
	dir := os.Getenv("VZ_CHILD_DIR")
	pr := newPipeRun(dir, sc.Cfg)
	if err := pr.applyConfig(sc.InputSeeds); err != nil {
		return 2
	}
	pr.perturb, pr.perturbSeed = 1, vc.DeriveSeed(sc.Seed, "C04", "perturb", sc.Index, sc.Run)
	pr.triggers = sc.Triggers
	pr.installHooks(true)
	// "finished implies captured" also in-line: a seed that is being acknowledged to the queue must not
	// have nodes that still await a fetch or post-processing (written through: the process may be killed)
	inl, _ := os.OpenFile(filepath.Join(dir, fmt.Sprintf("inline-%d.log", sc.Run)), os.O_CREATE|os.O_WRONLY|os.O_APPEND, 0o644)
	pr.itemHooks["fin.notify"] = func(item any, seq int64) {
		seed, ok := item.(*models.Item)
		if !ok {
			return
		}
		var pending []string
		seed.Traverse(func(it *models.Item) {
			if st := it.GetStatus(); st == models.ItemFresh || st == models.ItemPreProcessed || st == models.ItemArchived {
				pending = append(pending, fmt.Sprintf("%s %s", it.GetURL().Raw, st))
			}
		})
		if len(pending) > 0 && inl != nil {
			b, _ := json.Marshal(map[string]any{"seed": seed.GetID(), "url": seed.GetURL().Raw, "pending": pending, "stop_requested": pr.stopCalled.Load() != 0})
			inl.Write(append(b, '\n'))
		}
	}
	pr.start(false)
	os.WriteFile(filepath.Join(dir, fmt.Sprintf("started-%d", sc.Run)), []byte("1"), 0o644)
	v := pr.waitQuiescent(6500*time.Millisecond, 12*time.Second, 120*time.Second)
	if v != "stopped" {
		done := make(chan struct{})
		go func() { pr.stop(); close(done) }()
		select {
		case <-done:
		case <-time.After(60 * time.Second):
			os.WriteFile(filepath.Join(dir, fmt.Sprintf("stop-hung-%d", sc.Run)), []byte(strings.Join(stuckFrames(goroutineDump()), "\n")), 0o644)
			os.Exit(5)
		}
	} else {
		for pr.stopReturned.Load() == 0 {
			time.Sleep(10 * time.Millisecond)
		}
	}
	writeJSON(filepath.Join(dir, fmt.Sprintf("result-%d.json", sc.Run)), map[string]any{"verdict": v, "fired": pr.actionsFired})
	return 0
}

type lqRow struct {
	ID, Value, Status string
	Hops              int
}

func readLQ(path string) ([]lqRow, error) {
	// A killed writer can leave a hot journal: a read-only open cannot roll it back ("attempt to write a
	// readonly database"). Read a private copy of the database and its journal files, opened read-write,
	// so that the job's own files are never touched by the monitor.
	tmp, err := os.MkdirTemp(filepath.Dir(path), "lqcopy-")
	if err != nil {
		return nil, err
	}
	defer os.RemoveAll(tmp)
	for _, suffix := range []string{"", "-journal", "-wal", "-shm"} {
		if b, err := os.ReadFile(path + suffix); err == nil {
			os.WriteFile(filepath.Join(tmp, "lq.db"+suffix), b, 0o644)
		}
	}
	db, err := sql.Open("sqlite3", "file:"+filepath.Join(tmp, "lq.db"))
	if err != nil {
		return nil, err
	}
	defer db.Close()
	rows, err := db.Query("SELECT id, value, status, hops FROM urls")
	if err != nil {
		return nil, err
	}
	defer rows.Close()
	var out []lqRow
	for rows.Next() {
		var r lqRow
		if err := rows.Scan(&r.ID, &r.Value, &r.Status, &r.Hops); err != nil {
			return nil, err
		}
		out = append(out, r)
	}
	return out, rows.Err()
}

func readEvents(path string) []pipeEvent {
	b, err := os.ReadFile(path)
	if err != nil {
		return nil
	}
	var out []pipeEvent
	for _, l := range strings.Split(string(b), "\n") {
		var e pipeEvent
		if json.Unmarshal([]byte(l), &e) == nil && e.Point != "" {
			out = append(out, e)
		}
	}
	return out
}

type c04Plan struct {
	Kind      string    `json:"kind"` // kill-point | random-kill | graceful
	Triggers  []trigger `json:"triggers,omitempty"`
	DelayMs   int       `json:"delay_ms,omitempty"`
	Seencheck bool      `json:"seencheck"`
	Workers   int       `json:"workers,omitempty"` // 0 = chosen by the pair index
}

func c04Plans(r *vc.Run) []c04Plan {
	var plans []c04Plan
	points := []string{"lq.get.committed", "lq.before_insert", "reactor.insert", "arch.do", "arch.feedback.done", "reactor.finish.released", "fin.notified", "lq.delete.committed", "lq.add.committed"}
	occs := []int{1, 2, 5}
	if !r.Thorough() {
		// quick: every point once, occurrence rotating
		for i, p := range points {
			o := occs[(i+int(r.Seed))%3]
			if p == "lq.add.committed" || p == "lq.get.committed" {
				o = 1 + (i+int(r.Seed))%2
			}
			plans = append(plans, c04Plan{Kind: "kill-point", Triggers: []trigger{{p, o, "kill"}}, Seencheck: i%2 == 0})
		}
		rng := r.Rand("random-kill")
		for i := 0; i < 3; i++ {
			plans = append(plans, c04Plan{Kind: "random-kill", DelayMs: 300 + rng.Intn(7000), Seencheck: i%2 == 1})
		}
		plans = append(plans, c04Plan{Kind: "graceful", Triggers: []trigger{{"arch.do", 6, "stop"}}, Seencheck: false})
		plans = append(plans, c04Plan{Kind: "graceful", Triggers: []trigger{{"fin.notified", 3, "stop"}}, Seencheck: true})
		plans = append(plans, c04Plan{Kind: "graceful", Triggers: []trigger{{"arch.do", 3, "stop"}}, Seencheck: false})
		plans = append(plans, c04Plan{Kind: "graceful", Triggers: []trigger{{"arch.resp", 9, "stop"}}, Seencheck: false})
		plans = append(plans, c04Plan{Kind: "graceful", Triggers: []trigger{{"post.recv", 4, "stop"}}, Seencheck: false})
		plans = append(plans, c04Plan{Kind: "graceful", Triggers: []trigger{{"arch.resp", 4, "stop"}}, Seencheck: true})
		// one worker and a backlog: the queue consumer sits in ReceiveInsert with a claimed row when the stop freezes the reactor
		plans = append(plans, c04Plan{Kind: "graceful", Triggers: []trigger{{"arch.do", 4, "stop"}}, Seencheck: false, Workers: 1})
		plans = append(plans, c04Plan{Kind: "graceful", Triggers: []trigger{{"fin.notified", 2, "stop"}}, Seencheck: false, Workers: 1})
		return plans
	}
	for _, sck := range []bool{false, true} {
		for _, p := range points {
			for _, o := range occs {
				plans = append(plans, c04Plan{Kind: "kill-point", Triggers: []trigger{{p, o, "kill"}}, Seencheck: sck})
			}
		}
		rng := r.Rand("random-kill", map[bool]int{false: 0, true: 1}[sck])
		for i := 0; i < 16; i++ {
			plans = append(plans, c04Plan{Kind: "random-kill", DelayMs: 200 + rng.Intn(9000), Seencheck: sck})
		}
		for _, t := range [][]trigger{{{"arch.do", 3, "stop"}}, {{"arch.do", 12, "stop"}}, {{"pre.forward", 4, "stop"}}, {{"post.recv", 5, "stop"}}, {{"fin.notified", 2, "stop"}}, {{"fin.notified", 9, "stop"}}, {{"lq.delete.committed", 1, "stop"}}, {{"arch.do", 2, "pause"}, {"pause.ack", 2, "stop"}}} {
			plans = append(plans, c04Plan{Kind: "graceful", Triggers: t, Seencheck: sck})
			plans = append(plans, c04Plan{Kind: "graceful", Triggers: t, Seencheck: sck, Workers: 1})
		}
	}
	return plans
}

func c04(r *vc.Run) int {
	plans := c04Plans(r)
	var evaluations, rowsChecked, finishedChecked atomic.Int64
	classes := vc.NewDistinct()
	samples := vc.NewSamples(3)
	var seqCtr atomic.Int64
	parallel(len(plans), 12, func(i int) {
		plan := plans[i]
		label := fmt.Sprintf("pair%d[%s %v seencheck=%v]", i, plan.Kind, plan.Triggers, plan.Seencheck)
		if plan.Kind == "random-kill" {
			label = fmt.Sprintf("pair%d[random-kill after %d ms seencheck=%v]", i, plan.DelayMs, plan.Seencheck)
		}
		org, err := newOrigin(func() int64 { return seqCtr.Add(1) })
		if err != nil {
			r.Inconclusive("origin")
			return
		}
		defer org.close()
		site := &genSite{o: org, port: org.Port, rng: pipeRand(r.Seed, "c04site", i)}
		site.build(24+i%12, 2) // two hubs: the rows of the second follow the unparsable row of the first
		// make fetches slow enough for kills to land in the middle of things
		drng := pipeRand(r.Seed, "c04delay", i)
		org.mu.Lock()
		for _, rt := range org.routes {
			if drng.Intn(2) == 0 {
				rt.DelayMs = 20 + drng.Intn(250)
			}
		}
		org.mu.Unlock()
		dir := filepath.Join(r.Scratch, fmt.Sprintf("c04-%d", i))
		cfg := pipeConfig{Workers: 2 + i%3, MaxConcurrentAssets: 2, MaxHops: 1, MaxRetry: 1, MaxRedirect: 5, WARCPoolSize: 1 + i%2, DisableSeencheck: !plan.Seencheck}
		if plan.Workers > 0 {
			cfg.Workers = plan.Workers
		}
		sc1 := c04Scenario{Seed: r.Seed, Index: i, Cfg: cfg, InputSeeds: site.Hubs, Triggers: plan.Triggers, Run: 1}
		// ---- run 1 ----
		var res1 *childResult
		if plan.Kind == "random-kill" {
			done := make(chan *childResult, 1)
			go func() { done <- runChild(os.Getenv("VZ_BIN"), "pipe-c04", sc1, dir, 4*time.Minute) }()
			// the delay only chooses where the kill lands; wait for the pipeline to be up first
			for k := 0; k < 3000; k++ {
				if _, err := os.Stat(filepath.Join(dir, "started-1")); err == nil {
					break
				}
				time.Sleep(5 * time.Millisecond)
			}
			time.Sleep(time.Duration(plan.DelayMs) * time.Millisecond)
			killChildIn(dir)
			res1 = <-done
		} else {
			res1 = runChild(os.Getenv("VZ_BIN"), "pipe-c04", sc1, dir, 4*time.Minute)
		}
		killed := res1.Signal == "killed"
		if crashed, excerpt := res1.Crashed(); crashed {
			r.Violation("crash/"+crashSig(res1.Stderr), label+" run 1 crashed: "+truncate(excerpt, 600), map[string]any{"plan": plan})
			return
		}
		if res1.TimedOut || res1.Exit == 5 {
			r.Inconclusive("run1-did-not-end")
			return
		}
		cut := len(org.snapshot()) // origin log entries of run 1
		dbPath := filepath.Join(dir, "jobs", "j", "lq.db")
		rowsAtDeath, err := readLQ(dbPath)
		if err != nil {
			r.Inconclusive("lq-unreadable-after-run1")
			r.Note("%s: %v", label, err)
			return
		}
		ev1 := readEvents(filepath.Join(dir, "events.log"))
		os.Rename(filepath.Join(dir, "events.log"), filepath.Join(dir, "events-1.log"))
		// WARC files as left by run 1 (run 2 appends new files, the old ones are not touched)
		ix1 := newWarcIndex()
		ix1.scan(filepath.Join(dir, "jobs", "j", "warcs"))
		for _, p := range ix1.Problems {
			r.Violation("warc-unreadable-after-death", fmt.Sprintf("%s: %s @%d: %s", label, p.File, p.Offset, p.What), map[string]any{"plan": plan})
		}
		for _, f := range []string{"inline-1.log"} {
			if b, err := os.ReadFile(filepath.Join(dir, f)); err == nil {
				for _, l := range strings.Split(strings.TrimSpace(string(b)), "\n") {
					if l != "" {
						r.Violation("finished-with-pending-work", fmt.Sprintf("%s: a seed was acknowledged to the queue as finished while nodes of its tree still awaited work: %s", label, truncate(l, 600)), map[string]any{"plan": plan})
					}
				}
			}
		}
		// ---- run 2 ----
		sc2 := c04Scenario{Seed: r.Seed, Index: i, Cfg: cfg, Run: 2}
		res2 := runChild(os.Getenv("VZ_BIN"), "pipe-c04", sc2, dir, 5*time.Minute)
		if crashed, excerpt := res2.Crashed(); crashed {
			r.Violation("crash-on-restart/"+crashSig(res2.Stderr), label+" run 2 crashed: "+truncate(excerpt, 600), map[string]any{"plan": plan})
			return
		}
		var result2 struct {
			Verdict string `json:"verdict"`
		}
		if readJSON(filepath.Join(dir, "result-2.json"), &result2) != nil || result2.Verdict != "quiescent" {
			r.Inconclusive("run2-not-quiescent:" + result2.Verdict)
			return
		}
		rowsAfter, err := readLQ(dbPath)
		if err != nil {
			r.Inconclusive("lq-unreadable-after-run2")
			return
		}
		logs := org.snapshot()
		requestedRun2 := map[string]bool{}
		for _, l := range logs[cut:] {
			requestedRun2[l.URL] = true
		}
		valid := map[string]bool{}
		for _, s := range site.Seeds {
			valid[s.URL] = true
		}
		after := map[string]lqRow{}
		for _, row := range rowsAfter {
			after[row.ID] = row
		}
		evaluations.Add(1)
		nClaimed, nFresh := 0, 0
		for _, row := range rowsAtDeath {
			if !valid[row.Value] {
				continue
			}
			rowsChecked.Add(1)
			if row.Status == "CLAIMED" {
				nClaimed++
			} else {
				nFresh++
			}
			if !requestedRun2[canonForOrigin(row.Value)] {
				sig := "unfinished-seed-not-recrawled/" + strings.ToLower(row.Status)
				if a, ok := after[row.ID]; ok {
					sig += "/row-left-" + strings.ToLower(a.Status)
				} else {
					sig += "/row-deleted-without-fetch"
				}
				if plan.Seencheck {
					sig += "/seencheck-on"
				}
				r.Violation(sig, fmt.Sprintf("%s: queue row %s (%s, %s when run 1 died) was never requested during run 2", label, row.ID, row.Value, row.Status),
					map[string]any{"plan": plan, "row": row, "cfg": cfg, "killed": killed, "events_of_row_run1": eventsOf(ev1, row.ID)})
			} else if a, ok := after[row.ID]; ok {
				r.Violation("row-still-present-after-run2/"+strings.ToLower(a.Status), fmt.Sprintf("%s: queue row %s (%s) is still %s when run 2 is quiescent", label, row.ID, row.Value, a.Status), map[string]any{"plan": plan})
			}
		}
		// finished implies captured: rows inserted during run 1 that are gone from the queue
		atDeath := map[string]bool{}
		for _, row := range rowsAtDeath {
			atDeath[row.ID] = true
		}
		// a row the queue handed out in run 1 that is gone at the death although its URL was never requested
		// - not in run 1, and (its row being gone) not in run 2 either: it left the queue without being crawled
		requestedRun1 := map[string]bool{}
		for _, l := range logs[:cut] {
			requestedRun1[l.URL] = true
		}
		for _, e := range ev1 {
			if e.Point != "lq.before_insert" || atDeath[e.ID] {
				continue
			}
			val := strings.SplitN(e.URL, "\tvia=", 2)[0]
			if !valid[val] {
				continue
			}
			u := canonForOrigin(val)
			if !requestedRun1[u] && !requestedRun2[u] {
				sig := "handed-out-row-deleted-without-fetch"
				if plan.Seencheck {
					sig += "/seencheck-on"
				}
				r.Violation(sig, fmt.Sprintf("%s: queue row %s (%s) was handed out in run 1, is gone from the queue when run 1 ends, and its URL was never requested in either run", label, e.ID, val),
					map[string]any{"plan": plan, "cfg": cfg, "killed": killed, "events_of_row_run1": eventsOf(ev1, e.ID)})
			}
		}
		for _, e := range ev1 {
			if e.Point != "reactor.insert" || atDeath[e.ID] || !valid[e.URL] {
				continue
			}
			// deleted before death => finish acknowledged
			finishedChecked.Add(1)
			var sent []originLog
			for _, l := range logs[:cut] {
				if l.URL == canonForOrigin(e.URL) && l.Completed && l.Status != 429 {
					sent = append(sent, l)
				}
			}
			if len(sent) == 0 {
				continue // nothing was ever answered for it (reset): nothing to capture
			}
			found := false
			for _, rec := range ix1.Records {
				if rec.TargetURI != canonForOrigin(e.URL) || (rec.Type != "response" && rec.Type != "revisit") {
					continue
				}
				for _, l := range sent {
					if rec.HTTPStatus == l.Status && (rec.Type == "revisit" || (rec.BodySHA1 == hexToB32(l.SHA1) && rec.BodyLen == l.Len)) {
						found = true
					}
				}
			}
			if !found {
				r.Violation("finished-seed-not-captured", fmt.Sprintf("%s: seed %s (%s) had been acknowledged as finished (its row is gone) but the WARC files left by run 1 hold no complete response record for it", label, e.ID, e.URL),
					map[string]any{"plan": plan, "events_of_seed": eventsOf(ev1, e.ID), "origin": sent})
			}
		}
		pointName := plan.Kind
		if len(plan.Triggers) > 0 {
			pointName += ":" + plan.Triggers[len(plan.Triggers)-1].Point
		}
		classes.Add(fmt.Sprintf("%s/killed=%v/claimed>0=%v/fresh>0=%v", pointName, killed, nClaimed > 0, nFresh > 0))
		samples.Add(map[string]any{"plan": plan, "killed_by_signal": killed, "rows_at_death": len(rowsAtDeath), "claimed": nClaimed, "fresh": nFresh, "events_run1": len(ev1), "warc_records_run1": len(ix1.Records), "trailing_partial_members": len(ix1.TrailingPartial)})
		os.RemoveAll(dir)
	})
	// queue-level histories with short restart delays (see c04queue.go)
	qm := newMerged()
	nq, hq := r.N(4, 24), r.N(15, 40)
	parallel(nq, 8, func(i int) {
		dir := filepath.Join(r.Scratch, fmt.Sprintf("c04q-%d", i))
		sc := c04QueueScenario{Seed: r.Seed, Index: i, Histories: hq}
		res := runChild(os.Getenv("VZ_BIN"), "c04-queue", sc, dir, 10*time.Minute)
		absorb(r, qm, res, fmt.Sprintf("queue%d", i), sc, true)
		os.RemoveAll(dir)
	})
	evaluations.Add(int64(qm.Evaluations))
	for k := range qm.Distinct {
		classes.Add("queue/" + k)
	}
	for _, s := range qm.Samples {
		samples.Add(s)
	}
	cov := map[string]any{
		"queue_histories":        qm.Evaluations,
		"queue_events":           qm.Events,
		"evaluations":            int(evaluations.Load()),
		"distinct_nontrivial":    classes.Len(),
		"rule":                   "one evaluation = one (run 1 dies, run 2 restarts the same job) pair, or one queue-level history (Add/Get/Delete on the real sqlite queue, abandoned at an operation boundary and re-opened with lq.Init after 0-1100 ms, then drained and compared with a sequential reference model); death = SIGKILL at the n-th hit of an instrumented point in the claim / insert / fetch / WARC-feedback / finish / delete / add paths, SIGKILL at a seeded random time, or a graceful stop at a trigger; distinct = distinct (death kind and point, killed by signal, CLAIMED rows present, FRESH rows present) classes",
		"samples":                samples.List(),
		"queue_rows_checked":     int(rowsChecked.Load()),
		"finished_seeds_checked": int(finishedChecked.Load()),
		"classes":                classes.Counts(),
		"pairs_planned":          len(plans),
	}
	return r.Finish("fault_enumeration", cov, []string{
		"a killed process, not a killed machine: the page cache survives",
		"origin server lives in the parent and serves both runs; run 2 ends at quiescence (6.5 s without hook events) with a graceful stop",
		"'captured' = a response (or revisit) record for the seed URL whose status and payload match one of the responses the origin completed before the death",
	}, 4)
}

// canonForOrigin: the queue stores the URL text as discovered; generated seed URLs are already canonical
// except for the order-preserving query re-encoding (identical for the generated a=1&b=2 forms).
func canonForOrigin(u string) string { return u }

func eventsOf(evs []pipeEvent, id string) []string {
	var l []string
	for _, e := range evs {
		if e.ID == id {
			l = append(l, fmt.Sprintf("%d %s %s", e.Seq, e.Point, e.URL))
		}
	}
	if len(l) > 40 {
		l = l[len(l)-40:]
	}
	return l
}

// killChildIn SIGKILLs the child whose scenario lives in dir (found through /proc).
func killChildIn(dir string) {
	ents, _ := os.ReadDir("/proc")
	for _, e := range ents {
		pid := 0
		fmt.Sscanf(e.Name(), "%d", &pid)
		if pid == 0 {
			continue
		}
		b, err := os.ReadFile(fmt.Sprintf("/proc/%d/cmdline", pid))
		if err == nil && strings.Contains(string(b), filepath.Join(dir, "scenario.json")) {
			syscall.Kill(pid, syscall.SIGKILL)
		}
	}
}
