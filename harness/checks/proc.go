package checks

import (
	"bytes"
	"context"
	"encoding/json"
	"fmt"
	"os"
	"os/exec"
	"path/filepath"
	"strings"
	"sync"
	"syscall"
	"time"
)

// childResult is what the parent learns from one child process.
type childResult struct {
	Exit     int
	Signal   string
	TimedOut bool
	Stdout   string
	Stderr   string
	Wall     time.Duration
	Dir      string
}

// Crashed reports panic / fatal error / sanitizer output.
func (c *childResult) Crashed() (bool, string) {
	for _, pat := range []string{"panic:", "fatal error:", "SIGSEGV", "WARNING: DATA RACE", "checkptr:", "AddressSanitizer"} {
		if i := strings.Index(c.Stderr, pat); i >= 0 && pat != "WARNING: DATA RACE" {
			end := i + 1500
			if end > len(c.Stderr) {
				end = len(c.Stderr)
			}
			return true, c.Stderr[i:end]
		}
	}
	return false, ""
}

// RaceReports returns the number of race reports on stderr.
func (c *childResult) RaceReports() int { return strings.Count(c.Stderr, "WARNING: DATA RACE") }

// runChild runs `<bin> child <kind> <scenario.json>` in its own directory under the scratch area.
// timeout fires SIGQUIT (goroutine dump on stderr), then SIGKILL.
func runChild(bin, kind string, scenario any, dir string, timeout time.Duration, env ...string) *childResult {
	os.MkdirAll(dir, 0o755)
	scPath := filepath.Join(dir, "scenario.json")
	b, _ := json.Marshal(scenario)
	os.WriteFile(scPath, b, 0o644)
	ctx, cancel := context.WithCancel(context.Background())
	defer cancel()
	cmd := exec.CommandContext(ctx, bin, "child", kind, scPath)
	cmd.Dir = dir
	cmd.Env = append(os.Environ(), "VZ_CHILD_DIR="+dir, "GORACE=halt_on_error=0", "GOTRACEBACK=all")
	cmd.Env = append(cmd.Env, env...)
	var so, se bytes.Buffer
	cmd.Stdout, cmd.Stderr = &so, &se
	cmd.SysProcAttr = &syscall.SysProcAttr{Setpgid: true}
	start := time.Now()
	res := &childResult{Dir: dir}
	if err := cmd.Start(); err != nil {
		res.Exit = -1
		res.Stderr = err.Error()
		return res
	}
	done := make(chan error, 1)
	go func() { done <- cmd.Wait() }()
	var err error
	select {
	case err = <-done:
	case <-time.After(timeout):
		res.TimedOut = true
		cmd.Process.Signal(syscall.SIGQUIT)
		select {
		case err = <-done:
		case <-time.After(5 * time.Second):
			syscall.Kill(-cmd.Process.Pid, syscall.SIGKILL)
			err = <-done
		}
	}
	res.Wall = time.Since(start)
	res.Stdout, res.Stderr = so.String(), se.String()
	if err != nil {
		if ee, ok := err.(*exec.ExitError); ok {
			res.Exit = ee.ExitCode()
			if ws, ok := ee.Sys().(syscall.WaitStatus); ok && ws.Signaled() {
				res.Signal = ws.Signal().String()
			}
		} else {
			res.Exit = -1
		}
	}
	return res
}

// parallel runs f(i) for i in [0,n) on up to workers goroutines.
func parallel(n, workers int, f func(i int)) {
	if workers < 1 {
		workers = 1
	}
	var wg sync.WaitGroup
	ch := make(chan int)
	for w := 0; w < workers; w++ {
		wg.Add(1)
		go func() {
			defer wg.Done()
			for i := range ch {
				f(i)
			}
		}()
	}
	for i := 0; i < n; i++ {
		ch <- i
	}
	close(ch)
	wg.Wait()
}

func readJSON(path string, v any) error {
	b, err := os.ReadFile(path)
	if err != nil {
		return err
	}
	return json.Unmarshal(b, v)
}

func writeJSON(path string, v any) error {
	b, err := json.MarshalIndent(v, "", " ")
	if err != nil {
		return err
	}
	return os.WriteFile(path, b, 0o644)
}

func tail(s string, n int) string {
	if len(s) <= n {
		return s
	}
	return "..." + s[len(s)-n:]
}

var _ = fmt.Sprintf

// ---- report written by a child, merged by the parent ----

type vrec struct {
	Sig     string `json:"sig"`
	What    string `json:"what"`
	Witness any    `json:"witness,omitempty"`
}

type childReport struct {
	mu           sync.Mutex
	Evaluations  int            `json:"evaluations"`
	Events       map[string]int `json:"events"`
	Distinct     map[string]int `json:"distinct"`
	Violations   []vrec         `json:"violations"`
	Inconclusive map[string]int `json:"inconclusive"`
	Samples      []any          `json:"samples"`
	Extra        map[string]any `json:"extra"`
	Done         bool           `json:"done"`
}

func newReport() *childReport {
	return &childReport{Events: map[string]int{}, Distinct: map[string]int{}, Inconclusive: map[string]int{}, Extra: map[string]any{}}
}

func (c *childReport) violation(sig, what string, witness any) {
	c.mu.Lock()
	c.Events["violation:"+sig]++
	if c.Events["violation:"+sig] <= 2 && len(c.Violations) < 400 { // keep two witnesses per signature
		c.Violations = append(c.Violations, vrec{sig, what, witness})
	}
	c.mu.Unlock()
}
func (c *childReport) event(k string, n int) { c.mu.Lock(); c.Events[k] += n; c.mu.Unlock() }
func (c *childReport) distinct(k string)     { c.mu.Lock(); c.Distinct[k]++; c.mu.Unlock() }
func (c *childReport) inconclusive(k string) { c.mu.Lock(); c.Inconclusive[k]++; c.mu.Unlock() }
func (c *childReport) sample(v any, max int) {
	c.mu.Lock()
	if len(c.Samples) < max {
		c.Samples = append(c.Samples, v)
	}
	c.mu.Unlock()
}
func (c *childReport) write(dir string) {
	c.mu.Lock()
	defer c.mu.Unlock()
	c.Done = true
	writeJSON(filepath.Join(dir, "report.json"), c)
}

// merged accumulates child reports in the parent.
type merged struct {
	mu          sync.Mutex
	Evaluations int
	Events      map[string]int
	Distinct    map[string]int
	Samples     []any
	Children    int
	Races       map[string]int
}

func newMerged() *merged {
	return &merged{Events: map[string]int{}, Distinct: map[string]int{}, Races: map[string]int{}}
}

// addRaces counts the race reports of one child by signature (m.mu held) and keeps the first full
// report of every signature under replays/race-diagnostics/ so that a diagnostic can be analysed
// after the child's directory is gone. Race reports never decide a property by themselves.
func (m *merged) addRaces(stderr string) {
	sigs := raceSigs(stderr)
	if len(sigs) == 0 {
		return
	}
	blocks := strings.Split(stderr, "WARNING: DATA RACE")[1:]
	for i, s := range sigs {
		m.Races[s]++
		if m.Races[s] != 1 || i >= len(blocks) {
			continue
		}
		dir := filepath.Join(os.Getenv("VERIF_DIR"), "replays", "race-diagnostics")
		if os.Getenv("VERIF_DIR") == "" || os.MkdirAll(dir, 0o755) != nil {
			continue
		}
		id := "X"
		if len(os.Args) > 2 {
			id = os.Args[2]
		}
		name := strings.Map(func(r rune) rune {
			if r >= 'a' && r <= 'z' || r >= 'A' && r <= 'Z' || r >= '0' && r <= '9' || r == '.' || r == '-' {
				return r
			}
			return '_'
		}, s)
		if len(name) > 120 {
			name = name[:120]
		}
		b := blocks[i]
		if j := strings.Index(b, "=================="); j >= 0 {
			b = b[:j]
		}
		os.WriteFile(filepath.Join(dir, id+"-"+name+".txt"), []byte("WARNING: DATA RACE"+b), 0o644)
	}
}

// crashSig extracts a short stable signature from a Go panic/fatal trace: the message plus the first Zeno frame.
func crashSig(stderr string) string {
	msg := ""
	for _, l := range strings.Split(stderr, "\n") {
		if strings.HasPrefix(l, "panic:") || strings.HasPrefix(l, "fatal error:") {
			msg = l
			break
		}
	}
	if len(msg) > 90 {
		msg = msg[:90]
	}
	frame := ""
	idx := strings.Index(stderr, msg)
	for _, l := range strings.Split(stderr[idx:], "\n") {
		if strings.HasPrefix(l, "github.com/internetarchive/Zeno/") && !strings.Contains(l, "/internal/verif/") {
			frame = strings.TrimPrefix(l, "github.com/internetarchive/Zeno/")
			if i := strings.Index(frame, "("); i > 0 {
				frame = frame[:i]
			}
			break
		}
	}
	return strings.TrimSpace(msg) + " @ " + frame
}

// raceSigs returns deduplicated race signatures (first Zeno frames of the two stacks, no line numbers).
func raceSigs(stderr string) []string {
	var sigs []string
	blocks := strings.Split(stderr, "WARNING: DATA RACE")
	for _, b := range blocks[1:] {
		if i := strings.Index(b, "=================="); i >= 0 {
			b = b[:i]
		}
		var frames []string
		harness := false
		for _, part := range strings.Split(b, "\n\n") {
			if !(strings.Contains(part, " by goroutine") || strings.Contains(part, "by main goroutine")) || strings.HasPrefix(strings.TrimSpace(part), "Goroutine") {
				continue
			}
			for _, l := range strings.Split(part, "\n") {
				l = strings.TrimSpace(l)
				if !strings.HasPrefix(l, "github.com/internetarchive/Zeno/") {
					continue
				}
				if strings.Contains(l, "Zeno/internal/verif/") {
					harness = true // the innermost module frame of this access is harness code
					break
				}
				if strings.Contains(l, "Zeno/internal/pkg/verifhook") {
					continue
				}
				f := strings.TrimPrefix(l, "github.com/internetarchive/Zeno/")
				if i := strings.LastIndex(f, "("); i > 0 && strings.HasSuffix(f, ")") {
					f = f[:i]
				}
				if strings.Contains(part, "Zeno/internal/verif/") {
					f += " [called by the harness]" // the access is made on a harness goroutine through Zeno's API
				}
				frames = append(frames, f)
				break
			}
		}
		if harness {
			frames = nil
		}
		if len(frames) == 0 {
			sigs = append(sigs, "harness-only")
			continue
		}
		sigs = append(sigs, strings.Join(frames, " <-> "))
	}
	return sigs
}

// absorb merges one child's outcome into the run. Returns the child's report (nil if unusable).
func absorb(r interface {
	Violation(sig, what string, witness any)
	Inconclusive(why string)
	Note(format string, a ...any)
}, m *merged, res *childResult, label string, scenario any, crashIsViolation bool) *childReport {
	m.mu.Lock()
	m.Children++
	m.addRaces(res.Stderr)
	m.mu.Unlock()
	if crashed, excerpt := res.Crashed(); crashed && !res.TimedOut {
		if crashIsViolation {
			r.Violation("crash/"+crashSig(res.Stderr), label+": child crashed: "+excerpt, map[string]any{"scenario": scenario, "stderr_tail": tail(res.Stderr, 6000)})
		} else {
			r.Inconclusive("child-crash")
			r.Note("%s: child crashed: %s", label, crashSig(res.Stderr))
		}
	}
	var rep childReport
	if err := readJSON(filepath.Join(res.Dir, "report.json"), &rep); err != nil || !rep.Done {
		if res.TimedOut {
			r.Inconclusive("child-watchdog")
			r.Note("%s: watchdog fired after %s; stderr tail: %s", label, res.Wall, tail(res.Stderr, 1500))
		} else if c, _ := res.Crashed(); !c {
			r.Inconclusive("child-no-report")
			r.Note("%s: no report (exit %d %s): %s", label, res.Exit, res.Signal, tail(res.Stderr, 800))
		}
		// partial report may exist
		if rep.Events == nil {
			return nil
		}
	}
	m.mu.Lock()
	m.Evaluations += rep.Evaluations
	for k, v := range rep.Events {
		m.Events[k] += v
	}
	for k, v := range rep.Distinct {
		m.Distinct[k] += v
	}
	for _, s := range rep.Samples {
		if len(m.Samples) < 8 {
			m.Samples = append(m.Samples, s)
		}
	}
	m.mu.Unlock()
	for _, v := range rep.Violations {
		r.Violation(v.Sig, label+": "+v.What, map[string]any{"scenario": scenario, "witness": v.Witness})
	}
	for k, n := range rep.Inconclusive {
		for i := 0; i < n; i++ {
			r.Inconclusive(k)
		}
	}
	return &rep
}

// discardSink lets a check absorb a child's report without adopting its violations.
type discardSink struct{}

func (*discardSink) Violation(sig, what string, witness any) {}
func (*discardSink) Inconclusive(why string)                 {}
func (*discardSink) Note(format string, a ...any)            {}
