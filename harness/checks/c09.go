package checks

import (
	"fmt"
	"net/url"
	"strings"

	"github.com/internetarchive/Zeno/internal/pkg/preprocessor"
	"github.com/internetarchive/Zeno/internal/verif/vc"
	"github.com/internetarchive/Zeno/pkg/models"
)

// C09 — URL canonicalisation is deterministic, idempotent, yields only http(s) URLs.

func init() { register("C09", c09) }

// normOnce normalises text against parentText ("" = none) with fresh objects and returns the canonical string.
func normOnce(text, parentText string) (string, bool) {
	var parent *models.URL
	if parentText != "" {
		parent = &models.URL{Raw: parentText}
		if err := preprocessor.NormalizeURL(parent, nil); err != nil {
			return "", false
		}
	}
	u := &models.URL{Raw: text}
	if err := preprocessor.NormalizeURL(u, parent); err != nil {
		return "", false
	}
	return u.String(), true
}

// c09Shape checks "absolute http(s), dotted non-loopback host, no fragment" with net/url only.
func c09Shape(s string) string {
	p, err := url.Parse(s)
	if err != nil {
		return "unparseable: " + err.Error()
	}
	if p.Scheme != "http" && p.Scheme != "https" {
		return "scheme " + p.Scheme
	}
	h := p.Hostname()
	if h == "localhost" || h == "127.0.0.1" {
		return "loopback host " + h
	}
	if !strings.Contains(h, ".") {
		return "dot-less host " + h
	}
	if p.Fragment != "" || strings.Contains(s, "#") {
		return "fragment kept"
	}
	return ""
}

func dropDefaultPort(scheme, host string) string {
	if scheme == "http" && strings.HasSuffix(host, ":80") {
		return strings.TrimSuffix(host, ":80")
	}
	if scheme == "https" && strings.HasSuffix(host, ":443") {
		return strings.TrimSuffix(host, ":443")
	}
	return host
}

func c09(r *vc.Run) int {
	const repeats = 8
	samples := vc.NewSamples(10)
	distinct := map[string]struct{}{}
	kinds := vc.NewDistinct()
	evals, accepted, idemChecked, idemSkippedQuote, resolved, multiKey := 0, 0, 0, 0, 0, 0

	caseOf := func(text, parent, kind string) (string, bool) {
		evals++
		first, ok := normOnce(text, parent)
		for i := 1; i < repeats; i++ {
			s, ok2 := normOnce(text, parent)
			if ok2 != ok || s != first {
				sig := "nondeterministic"
				if ok && ok2 && strings.Contains(first, "&") {
					sig = "nondeterministic/query-order"
				}
				r.Violation(sig, fmt.Sprintf("NormalizeURL(%q, parent=%q) gave %q then %q", text, parent, first, s),
					map[string]any{"text": text, "parent": parent, "first": first, "later": s, "accepted_first": ok, "accepted_later": ok2})
				break
			}
		}
		if !ok {
			kinds.Add(kind + "/rejected")
			return "", false
		}
		accepted++
		kinds.Add(kind + "/accepted")
		if _, seen := distinct[text+"\x00"+parent]; !seen {
			distinct[text+"\x00"+parent] = struct{}{}
		}
		if why := c09Shape(first); why != "" {
			r.Violation("bad-shape/"+strings.SplitN(why, " ", 2)[0], fmt.Sprintf("NormalizeURL(%q, parent=%q) accepted %q: %s", text, parent, first, why),
				map[string]any{"text": text, "parent": parent, "result": first, "why": why})
		}
		// idempotence
		if strings.Trim(first, `"'`) != first {
			idemSkippedQuote++
		} else {
			idemChecked++
			again, ok2 := normOnce(first, "")
			if !ok2 || again != first {
				sig := "not-idempotent"
				if ok2 && len(again) == len(first) && strings.Contains(first, "&") {
					sig = "not-idempotent/query-order"
				}
				r.Violation(sig, fmt.Sprintf("canonical %q (from %q, parent %q) re-normalises to %q (accepted=%v)", first, text, parent, again, ok2),
					map[string]any{"text": text, "parent": parent, "canonical": first, "again": again, "accepted_again": ok2})
			}
		}
		if len(samples.S) < 10 && evals%997 == 0 {
			samples.Add(map[string]any{"text": text, "parent": parent, "canonical": first, "kind": kind})
		}
		return first, true
	}

	n := r.N(150000, 3000000)
	rng := r.Rand("cases")
	for i := 0; i < n; i++ {
		switch rng.Intn(3) {
		case 0: // hostile text, with or without parent
			parent := ""
			if rng.Intn(2) == 0 {
				parent = genWFAbsolute(rng).String()
			}
			caseOf(genMutated(rng), parent, "mutated")
		case 1: // well-formed absolute
			u := genWFAbsolute(rng)
			got, ok := caseOf(u.String(), "", "wf-absolute")
			c09Compare(r, u.String(), "", u.String(), got, ok, &resolved, &multiKey)
		default: // well-formed relative reference against a well-formed parent
			base := genWFAbsolute(rng)
			if rng.Intn(2) == 0 {
				base.Path = strings.TrimSuffix(base.Path, "/") + "/" + pick(rng, genSegs)
			}
			var ref, kind string
			_, q := genQuery(rng, 5)
			if q != "" && rng.Intn(5) == 0 { // valueless key
				q += "&" + pick(rng, genKeys)
			}
			switch rng.Intn(7) {
			case 0:
				ref, kind = genPath(rng, 4, true, true), "path-absolute"
			case 1:
				ref, kind = genPath(rng, 4, true, false), "path-relative"
				if ref == "" { // the empty reference is not in the statement's list of relative forms
					ref = pick(rng, genSegs)
				}
			case 2:
				ref, kind = "", "query-only"
				if q == "" {
					q = "k=v"
				}
			case 3:
				ref, kind = "//"+pick(rng, genHosts)+genPath(rng, 3, true, true), "scheme-relative"
			case 4:
				ref, kind = "./"+genPath(rng, 3, true, false), "dot-slash"
			case 5:
				ref, kind = strings.Repeat("../", 1+rng.Intn(4))+genPath(rng, 2, false, false), "dot-dot"
			default:
				ref, kind = genWFAbsolute(rng).String(), "absolute-with-parent"
				q = ""
			}
			if q != "" {
				ref += "?" + q
			}
			if rng.Intn(6) == 0 {
				frag := pick(rng, genSegs)
				if rng.Intn(3) == 0 {
					frag = "" // a bare trailing '#': an empty fragment is a fragment too
				}
				ref += "#" + frag
			}
			if rng.Intn(8) == 0 {
				qc := pick(rng, []string{`"`, `'`})
				ref = qc + ref + qc
			}
			got, ok := caseOf(ref, base.String(), "wf-"+kind)
			want := resolveRef(base.String(), strings.Trim(ref, `"'`))
			c09Compare(r, ref, base.String(), want, got, ok, &resolved, &multiKey)
		}
	}

	// Sibling batches: the pipeline normalises all references of one page against the SAME parent object,
	// one after the other. "A pure function of the URL text and its parent URL" means the result for a
	// reference does not depend on which siblings were normalised before it, and the parent is left as it was.
	batches, batchRefs := 0, 0
	nb := r.N(3000, 60000)
	for b := 0; b < nb; b++ {
		base := genWFAbsolute(rng)
		base.Path = strings.TrimSuffix(base.Path, "/") + "/" + pick(rng, genSegs) + "/" + pick(rng, genSegs)
		parentText := base.String()
		parent := &models.URL{Raw: parentText}
		if preprocessor.NormalizeURL(parent, nil) != nil {
			continue
		}
		parentBefore := parent.String()
		batches++
		var done []string
		for k := 0; k < 2+rng.Intn(5); k++ {
			var ref string
			switch rng.Intn(7) {
			case 0:
				ref = genPath(rng, 3, true, true)
			case 1:
				ref = "//" + pick(rng, genHosts) + genPath(rng, 2, false, true)
			case 2:
				ref = genPath(rng, 3, true, false)
			case 3:
				ref = "?k=" + pick(rng, genVals)
			case 4:
				ref = "./" + genPath(rng, 2, false, false)
			case 5:
				ref = "../" + pick(rng, genSegs)
			default:
				ref = genWFAbsolute(rng).String()
			}
			if ref == "" {
				ref = pick(rng, genSegs)
			}
			batchRefs++
			want, wok := normOnce(ref, parentText) // fresh parent object
			u := &models.URL{Raw: ref}
			err := preprocessor.NormalizeURL(u, parent)
			got, gok := "", err == nil
			if gok {
				got = u.String()
			}
			if gok != wok || got != want {
				r.Violation("depends-on-earlier-siblings", fmt.Sprintf("NormalizeURL(%q, parent %q) gives %q (accepted=%v) with a fresh parent object but %q (accepted=%v) after the siblings %q were normalised against the same parent object", ref, parentText, want, wok, got, gok, done),
					map[string]any{"ref": ref, "parent": parentText, "fresh": want, "shared": got, "siblings_before": done})
				break
			}
			if now := parent.String(); now != parentBefore {
				r.Violation("parent-changed-by-normalising-a-child", fmt.Sprintf("normalising %q changed its parent from %q to %q", ref, parentBefore, now),
					map[string]any{"ref": ref, "parent_before": parentBefore, "parent_after": now})
				break
			}
			done = append(done, ref)
		}
	}

	cov := map[string]any{
		"sibling_batches":              batches,
		"sibling_references":           batchRefs,
		"evaluations":                  evals + batchRefs,
		"distinct_nontrivial":          len(distinct),
		"rule":                         fmt.Sprintf("seeded grammar-generated and mutated URL texts x parents, each normalised %d times in fresh objects; non-trivial = distinct (text,parent) pairs that were accepted (so shape, idempotence and determinism were all exercised)", repeats),
		"samples":                      samples.List(),
		"accepted":                     accepted,
		"idempotence_checked":          idemChecked,
		"idempotence_skipped_quote":    idemSkippedQuote,
		"wellformed_resolution_checks": resolved,
		"cases_with_2plus_query_keys":  multiKey,
		"kinds":                        kinds.Counts(),
	}
	return r.Finish("exploration", cov, []string{
		"relative resolution reference = own RFC 3986 section 5.2 implementation, applied only to references from an unreserved alphabet where RFC 3986 and the WHATWG URL standard agree; default ports are dropped as WHATWG prescribes",
		"shape oracle uses net/url only (never ada)",
	}, 200)
}

// c09Compare checks a well-formed case against the independent resolver: accepted, same scheme/host/path, query pairs in order.
func c09Compare(r *vc.Run, text, parent, want, got string, ok bool, resolved, multiKey *int) {
	*resolved++
	if !ok {
		r.Violation("wellformed-rejected", fmt.Sprintf("well-formed %q (parent %q) was rejected; expected %q", text, parent, want),
			map[string]any{"text": text, "parent": parent, "want": want})
		return
	}
	w := splitRef(want)
	g := splitRef(got)
	w.authority = dropDefaultPort(w.scheme, w.authority)
	if g.path == "" {
		g.path = "/"
	}
	if w.scheme != g.scheme || w.authority != g.authority || w.path != g.path {
		r.Violation("resolution-differs", fmt.Sprintf("%q against %q: got %q, reference resolver says %q", text, parent, got, want),
			map[string]any{"text": text, "parent": parent, "got": got, "want": want})
		return
	}
	wp := parsePairs(w.query)
	gp := parsePairs(g.query)
	if len(wp) >= 2 {
		*multiKey++
	}
	same := len(wp) == len(gp)
	if same {
		for i := range wp {
			gk, _ := url.QueryUnescape(gp[i].K)
			gv, _ := url.QueryUnescape(gp[i].V)
			if gk != wp[i].K || gv != wp[i].V {
				same = false
				break
			}
		}
	}
	if !same {
		sig := "query-pairs-changed"
		if len(wp) == len(gp) {
			sig = "query-pairs-reordered"
		}
		r.Violation(sig, fmt.Sprintf("%q against %q: query %q became %q", text, parent, w.query, g.query),
			map[string]any{"text": text, "parent": parent, "got": got, "want": want})
	}
}
