package checks

import (
	"fmt"
	"os"
	"path/filepath"
	"sort"
	"time"

	"github.com/internetarchive/Zeno/internal/verif/vc"
)

// C13, pipeline level: the archiver's use of the limiter, observed at the origin with the real clock.
// Arrival times are the measured quantity (with a stated slack), not deadlines: a slow machine can only
// spread requests further apart, never compress them.

func init() { registerChild("pipe-c13", c13PipeChild) }

type c13PipeScenario struct {
	Seed  int64      `json:"seed"`
	Index int        `json:"index"`
	Cfg   pipeConfig `json:"cfg"`
	Hosts int        `json:"hosts"`
}

func c13PipeChild(scPath string) int {
	var sc c13PipeScenario
	if err := readJSON(scPath, &sc); err != nil {
		return 2
	}
	dir := os.Getenv("VZ_CHILD_DIR")
	rep := newReport()
	defer rep.write(dir)
	pr := newPipeRun(dir, sc.Cfg)
	org, err := newOrigin(pr.nextSeq)
	if err != nil {
		return 2
	}
	pr.org = org
	rng := pipeRand(sc.Seed, "c13pipe", sc.Index)
	var anchors []string
	penaltyHost := map[string]string{} // host -> URI that answers 429 once
	for hN := 0; hN < sc.Hosts; hN++ {
		h := hostOf(13, 1+hN, org.Port)
		var assets []string
		n := 14 + rng.Intn(12)
		for a := 0; a < n; a++ {
			uri := fmt.Sprintf("/a/%d.png", a)
			rt := &route{Status: 200, Headers: map[string]string{"Content-Type": "image/png"}, Body: pngBytes, Tag: "asset"}
			if hN%2 == 1 && a == 1 {
				rt.FailFirst, rt.FailStatus, rt.Tag = 1, 429, "429-once"
				penaltyHost[h] = uri
			}
			org.set(h, uri, rt)
			assets = append(assets, uri)
		}
		org.set(h, "/p.html", &route{Status: 200, Headers: map[string]string{"Content-Type": "text/html"}, Body: htmlPage("p", assets, nil), Tag: "page"})
		anchors = append(anchors, "http://"+h+"/p.html")
	}
	hub := hostOf(13, 250, org.Port)
	org.set(hub, "/hub.html", &route{Status: 200, Headers: map[string]string{"Content-Type": "text/html"}, Body: htmlPage("hub", nil, anchors), Tag: "hub"})
	if err := pr.applyConfig([]string{"http://" + hub + "/hub.html"}); err != nil {
		return 2
	}
	pr.installHooks(false)
	pr.start(false)
	verdict := pr.waitQuiescent(8*time.Second, 45*time.Second, 300*time.Second)
	rep.Evaluations = 1
	if verdict != "quiescent" {
		rep.inconclusive("no-quiescence:" + verdict)
	}
	capacity, rate := sc.Cfg.RateCapacity, sc.Cfg.RateRefill
	const slackS = 0.25
	byHost := map[string][]originLog{}
	for _, l := range org.snapshot() {
		byHost[l.Host] = append(byHost[l.Host], l)
	}
	for h, logs := range byHost {
		if h == hub {
			continue
		}
		sort.Slice(logs, func(i, j int) bool { return logs[i].StartUs < logs[j].StartUs })
		// first attempts only: the archiver deliberately retries without asking the limiter again
		seen := map[string]bool{}
		var first []originLog
		for _, l := range logs {
			if !seen[l.URI] {
				seen[l.URI] = true
				first = append(first, l)
			}
		}
		rep.event("hosts_checked", 1)
		rep.event("first_attempts", len(first))
		worst := 0.0
		for i := range first {
			for j := i + 1; j < len(first); j++ {
				T := float64(first[j].StartUs-first[i].StartUs) / 1e6
				allowed := capacity + (T+slackS)*rate
				if over := float64(j-i+1) - allowed; over > worst {
					worst = over
				}
				if float64(j-i+1) > allowed+1e-9 {
					rep.violation("e2e/window-bound", fmt.Sprintf("host %s: %d first-attempt requests arrived within %.3f s (capacity %v, rate %v/s, slack %.2f s): more than capacity + T x rate", h, j-i+1, T, capacity, rate, slackS), map[string]any{"cfg": sc.Cfg})
					goto nextHost
				}
			}
		}
		rep.distinct(fmt.Sprintf("window/%d-requests", len(first)/5*5))
	nextHost:
		// back-off: after the 429, no request for a URL not requested before may arrive for 5 s
		if uri, ok := penaltyHost[h]; ok {
			var t429 int64 = -1
			for _, l := range logs {
				if l.URI == uri && l.Status == 429 {
					t429 = l.StartUs
				}
			}
			if t429 >= 0 {
				before := map[string]bool{}
				for _, l := range logs {
					if l.StartUs <= t429 {
						before[l.URI] = true
					}
				}
				newAfter := 0
				for _, l := range logs {
					if l.StartUs > t429+int64(slackS*1e6) && !before[l.URI] {
						newAfter++
						if d := float64(l.StartUs-t429) / 1e6; d < 5-slackS {
							rep.violation("e2e/request-during-penalty", fmt.Sprintf("host %s answered 429 and %.2f s later a request for a new URL (%s) arrived; the back-off penalty is 5 s", h, d, l.URI), map[string]any{"cfg": sc.Cfg})
							break
						}
						before[l.URI] = true
					}
				}
				rep.event("penalty_hosts_checked", 1)
				if newAfter > 0 {
					rep.distinct("penalty/new-urls-after-429")
				}
			}
		}
	}
	done := make(chan struct{})
	go func() { pr.stop(); close(done) }()
	select {
	case <-done:
	case <-time.After(60 * time.Second):
	}
	return 0
}

// c13Pipeline runs the pipeline-level part and returns counters for the evidence.
func c13Pipeline(r *vc.Run) map[string]any {
	n := r.N(4, 24)
	m := newMerged()
	parallel(n, 6, func(i int) {
		cfg := pipeConfig{Workers: 1 + i%3, MaxConcurrentAssets: []int{1, 4, 8}[i%3], MaxHops: 1, MaxRetry: 1, MaxRedirect: 3, WARCPoolSize: 1, RateLimit: true,
			RateCapacity: []float64{1, 2, 5}[i%3], RateRefill: []float64{4, 8, 10, 3}[i%4], DisableSeencheck: i%2 == 0}
		sc := c13PipeScenario{Seed: r.Seed, Index: i, Cfg: cfg, Hosts: 4}
		dir := filepath.Join(r.Scratch, fmt.Sprintf("c13p-%d", i))
		res := runChild(os.Getenv("VZ_BIN"), "pipe-c13", sc, dir, 8*time.Minute)
		absorb(r, m, res, fmt.Sprintf("pipeline%d[cap=%v rate=%v assets=%d]", i, cfg.RateCapacity, cfg.RateRefill, cfg.MaxConcurrentAssets), sc, true)
		os.RemoveAll(dir)
	})
	return map[string]any{"runs": n, "events": m.Events, "classes": m.Distinct}
}
