package checks

import (
	"fmt"
	"math"
	"math/big"

	"github.com/internetarchive/Zeno/internal/pkg/controler/watchers"
	"github.com/internetarchive/Zeno/internal/verif/vc"
)

// C18 — low-disk guard: exact and monotone threshold.
// Oracle: the decision of the real checkThreshold (through the verif export shim) against a reference
// computed in exact rational arithmetic; plus monotonicity over ascending free values.

const gib = uint64(1) << 30

// c18Ref returns refuse(total, free, min) from the property statement, exactly.
func c18Ref(total, free uint64, min float64) bool {
	T := new(big.Rat)
	if min > 0 && !math.IsNaN(min) {
		if math.IsInf(min, 1) {
			return true
		}
		T.SetFloat64(min)
		T.Mul(T, new(big.Rat).SetUint64(gib))
	} else if total <= 256*gib {
		T.SetFrac(new(big.Int).Mul(new(big.Int).SetUint64(50*gib), new(big.Int).SetUint64(total)), new(big.Int).SetUint64(256*gib))
	} else {
		T.SetUint64(50 * gib)
	}
	return new(big.Rat).SetUint64(free).Cmp(T) < 0
}

// c18Threshold returns floor and ceil of the exact threshold (saturated to 2^63-1) for boundary generation.
func c18Threshold(total uint64, min float64) (fl, ce uint64) {
	T := new(big.Rat)
	if min > 0 && !math.IsNaN(min) && !math.IsInf(min, 0) {
		T.SetFloat64(min)
		T.Mul(T, new(big.Rat).SetUint64(gib))
	} else if total <= 256*gib {
		T.SetFrac(new(big.Int).Mul(new(big.Int).SetUint64(50*gib), new(big.Int).SetUint64(total)), new(big.Int).SetUint64(256*gib))
	} else {
		T.SetUint64(50 * gib)
	}
	q := new(big.Int).Quo(T.Num(), T.Denom())
	max := new(big.Int).SetUint64(math.MaxInt64)
	if q.Cmp(max) >= 0 {
		return math.MaxInt64, math.MaxInt64
	}
	fl = q.Uint64()
	ce = fl
	if !T.IsInt() {
		ce = fl + 1
	}
	return
}

func init() { register("C18", c18) }

func c18(r *vc.Run) int {
	samples := vc.NewSamples(12)
	nontrivial := map[[3]uint64]struct{}{}
	evals := 0
	classes := vc.NewDistinct()

	eval := func(total, free uint64, min float64) {
		if free > total {
			return
		}
		if total > math.MaxInt64 {
			// huge volumes (network / FUSE mounts that report "unlimited"): judged whenever the threshold
			// itself is an ordinary number; a threshold beyond 2^63 bytes is left out (float -> uint64
			// conversion of such values is implementation-specific)
			if fl0, _ := c18Threshold(total, min); fl0 >= math.MaxInt64 {
				return
			}
		}
		evals++
		got := watchers.VerifCheckThreshold(total, free, min)
		want := c18Ref(total, free, min)
		fl, ce := c18Threshold(total, min)
		near := (free+4096 >= fl && free <= ce+4096)
		branch := "scaled"
		if min > 0 {
			branch = "operator"
		} else if total > 256*gib {
			branch = "flat"
		}
		if near {
			nontrivial[[3]uint64{total, free, math.Float64bits(min)}] = struct{}{}
			side := "above"
			if free < fl {
				side = "below"
			} else if free == fl && fl != ce {
				side = "at-floor-of-fractional"
			} else if free == fl {
				side = "at-integral"
			}
			classes.Add(branch + "/" + side)
		}
		if len(samples.S) < 12 && near && evals%7 == 0 {
			samples.Add(map[string]any{"total": total, "free": free, "min_gib": fmt.Sprint(min), "refuse": got})
		}
		if got != want {
			sig := "decision-differs/" + branch
			if free == fl && fl != ce {
				sig = "fractional-threshold-truncated/" + branch
			}
			r.Violation(sig, fmt.Sprintf("checkThreshold(total=%d, free=%d, min=%v) refuse=%v, exact reference refuse=%v (threshold in [%d,%d])", total, free, min, got, want, fl, ce),
				map[string]any{"total": total, "free": free, "min": fmt.Sprint(min), "got_refuse": got, "want_refuse": want})
		}
	}

	totals := []uint64{0, 1, 4096, 255 * gib, 256*gib - 4096, 256*gib - 1, 256 * gib, 256*gib + 1, 256*gib + 4096, 1 << 40, 1<<53 - 1, 1 << 53, 1<<53 + 1, math.MaxInt64,
		1000 * 1000 * 1000, 999999999999, 3*gib + 7, 128 * gib, 100*gib + 1, 37, 1 << 63, 1<<63 + 4096, math.MaxUint64 - 4095, math.MaxUint64}
	mins := []float64{0, -1, math.NaN(), 1e-9, 0.3, 1.0 / 3, 1, 20, 49.99, 50, 1e6, 1e30, 0.1, 7.7, 255.999, 2.5e-10}
	deltas := []int64{-4096, -2, -1, 0, 1, 2, 4096}
	for _, total := range totals {
		for _, min := range mins {
			fl, ce := c18Threshold(total, min)
			for _, base := range []uint64{fl, ce} {
				for _, d := range deltas {
					f := int64(base) + d
					if f < 0 {
						continue
					}
					eval(total, uint64(f), min)
				}
			}
			eval(total, 0, min)
			eval(total, total, min)
			for _, f := range []uint64{1<<63 - 1, 1 << 63, 1<<63 + 50*gib, 1<<63 + 51*gib, 3 << 62, math.MaxUint64 - 1} {
				eval(total, f, min) // dropped by eval when free > total
			}
		}
	}
	// monotonicity on ascending free ladders around the threshold
	monoChecked := 0
	for _, total := range totals {
		for _, min := range mins {
			fl, _ := c18Threshold(total, min)
			prevAccept := false
			var prevFree uint64
			for d := int64(-64); d <= 64; d++ {
				f := int64(fl) + d
				if f < 0 || uint64(f) > total {
					continue
				}
				acc := !watchers.VerifCheckThreshold(total, uint64(f), min)
				monoChecked++
				if prevAccept && !acc {
					r.Violation("non-monotone", fmt.Sprintf("total=%d min=%v: accept at free=%d but refuse at free=%d", total, min, prevFree, f),
						map[string]any{"total": total, "min": fmt.Sprint(min), "free_accept": prevFree, "free_refuse": f})
				}
				if acc {
					prevAccept, prevFree = true, uint64(f)
				}
			}
		}
	}
	// random triples
	rng := r.Rand("random")
	n := r.N(300000, 3000000)
	for i := 0; i < n; i++ {
		var total uint64
		switch rng.Intn(5) {
		case 0:
			total = uint64(rng.Int63n(int64(256*gib) + 1))
		case 1:
			total = 256*gib + uint64(rng.Int63n(1<<20)) - 1<<19
		case 2:
			total = uint64(rng.Int63())
			if rng.Intn(4) == 0 {
				total |= 1 << 63
			}
		case 3:
			total = uint64(rng.Int63n(1 << 44))
		default:
			total = uint64(rng.Int63n(int64(8 * gib)))
		}
		var min float64
		switch rng.Intn(6) {
		case 0:
			min = 0
		case 1:
			min = rng.Float64() * 100
		case 2:
			min = float64(rng.Intn(300))
		case 3:
			min = -rng.Float64()
		case 4:
			min = math.Float64frombits(rng.Uint64() & 0x7fffffffffffffff)
			if math.IsInf(min, 0) {
				min = 3
			}
		default:
			min = rng.Float64() * 1e-3
		}
		fl, _ := c18Threshold(total, min)
		var free uint64
		switch rng.Intn(3) {
		case 0:
			f := int64(fl) + rng.Int63n(9) - 4
			if f < 0 {
				f = 0
			}
			free = uint64(f)
		case 1:
			if total > 0 {
				free = uint64(rng.Int63n(int64(total>>1) + 1))
			}
		default:
			free = rng.Uint64()
			if total < math.MaxUint64 {
				free %= total + 1
			}
		}
		eval(total, free, min)
	}

	proc := c18Process(r)
	cov := map[string]any{
		"process_level":       proc,
		"evaluations":         evals,
		"distinct_nontrivial": len(nontrivial),
		"rule":                "boundary grid (20 totals x 16 settings x {floor,ceil of exact threshold} x 7 deltas) + seeded random triples with free <= total over the whole uint64 range; non-trivial = distinct (total, free, min) with free within 4096 bytes of the exact threshold",
		"samples":             samples.List(),
		"boundary_classes":    classes.Counts(),
		"monotonicity_points": monoChecked,
	}
	return r.Finish("exploration", cov, []string{
		"reference = exact rational arithmetic (math/big) written from the property statement",
		"free <= total <= 2^64-1; cases whose exact threshold is 2^63 bytes or more are left out (Go's float->uint64 conversion of such values is implementation-specific)",
		"NaN / negative / zero --min-space-required count as 'not given'",
		"process level: the real CheckDiskUsage on the scratch volume (cases within 256 MiB of the threshold are skipped: other processes write to the volume), the refusal to start judged by exit status 1 and message, the real WatchDiskSpace (40 ms interval) pausing and resuming real stage workers when the setting crosses the free space (plain build; one word-sized store into live configuration)",
	}, 100)
}
