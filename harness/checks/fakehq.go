package checks

import (
	"encoding/json"
	"fmt"
	"io"
	"net"
	"net/http"
	"strconv"
	"strings"
	"sync"
	"time"

	"github.com/gobwas/ws"
)

// Crawl-HQ double: the REST endpoints and the /api/ws websocket the gocrawlhq client uses, with a
// fault script over its calls and a log of what it was sent and what it answered.

type hqURL struct {
	ID     string `json:"id"`
	Value  string `json:"value"`
	Via    string `json:"via,omitempty"`
	Path   string `json:"path,omitempty"`
	Type   string `json:"type,omitempty"`
	Status string `json:"status"`
}

type hqCall struct {
	Seq     int64   `json:"seq"`
	Kind    string  `json:"kind"` // get add delete seencheck reset
	N       int     `json:"n"`    // occurrence of this kind
	Fault   string  `json:"fault,omitempty"`
	Status  int     `json:"status"`
	URLs    []hqURL `json:"urls,omitempty"`
	Success bool    `json:"success"`
}

type hqFault struct {
	Kind string `json:"kind"` // add delete get
	N    int    `json:"n"`    // k-th call of that kind
	What string `json:"what"` // 500 502 503 reset stall
}

type fakeHQ struct {
	ln       net.Listener
	Port     int
	mu       sync.Mutex
	queue    []*hqURL // FRESH first-come
	claimed  map[string]*hqURL
	deleted  map[string]bool
	seen     map[string]string // value -> type
	calls    []hqCall
	counts   map[string]int
	faults   map[string]string // "kind#n" -> what
	nextID   int
	seq      func() int64
	activity func()
	maxHops  int
	Identify int
}

func newFakeHQ(seq func() int64, activity func(), faults []hqFault, maxHops int) (*fakeHQ, error) {
	ln, err := net.Listen("tcp4", "127.0.0.1:0")
	if err != nil {
		return nil, err
	}
	h := &fakeHQ{ln: ln, Port: ln.Addr().(*net.TCPAddr).Port, claimed: map[string]*hqURL{}, deleted: map[string]bool{}, seen: map[string]string{}, counts: map[string]int{}, faults: map[string]string{}, seq: seq, activity: activity, maxHops: maxHops}
	for _, f := range faults {
		h.faults[fmt.Sprintf("%s#%d", f.Kind, f.N)] = f.What
	}
	mux := http.NewServeMux()
	mux.HandleFunc("/api/ws", h.ws)
	mux.HandleFunc("/api/projects/verif/urls", h.urls)
	mux.HandleFunc("/api/projects/verif/seencheck", h.seencheck)
	mux.HandleFunc("/api/projects/verif/reset/", h.reset)
	go (&http.Server{Handler: mux}).Serve(ln)
	return h, nil
}

func (h *fakeHQ) addSeed(value, via, path string) string {
	h.mu.Lock()
	defer h.mu.Unlock()
	h.nextID++
	id := fmt.Sprintf("seed-%06d", h.nextID)
	h.queue = append(h.queue, &hqURL{ID: id, Value: value, Via: via, Path: path, Status: "FRESH", Type: "seed"})
	return id
}

func (h *fakeHQ) ws(w http.ResponseWriter, r *http.Request) {
	conn, _, _, err := ws.UpgradeHTTP(r, w)
	if err != nil {
		return
	}
	go func() {
		defer conn.Close()
		buf := make([]byte, 4096)
		for {
			if _, err := conn.Read(buf); err != nil {
				return
			}
			h.mu.Lock()
			h.Identify++
			h.mu.Unlock()
		}
	}()
}

// fault applies the scripted fault for this call; returns true if the request was failed.
func (h *fakeHQ) fault(kind string, w http.ResponseWriter) (n int, what string, failed bool) {
	h.mu.Lock()
	h.counts[kind]++
	n = h.counts[kind]
	what = h.faults[fmt.Sprintf("%s#%d", kind, n)]
	h.mu.Unlock()
	switch what {
	case "":
		return n, "", false
	case "reset":
		if hj, ok := w.(http.Hijacker); ok {
			if c, _, err := hj.Hijack(); err == nil {
				if tc, ok := c.(*net.TCPConn); ok {
					tc.SetLinger(0)
				}
				c.Close()
			}
		}
		return n, what, true
	case "stall":
		time.Sleep(6 * time.Second) // longer than the client's 5 s timeout; the request is then processed normally
		return n, what, false
	default:
		code, _ := strconv.Atoi(what)
		w.WriteHeader(code)
		return n, what, true
	}
}

func (h *fakeHQ) record(c hqCall) {
	c.Seq = h.seq()
	h.mu.Lock()
	h.calls = append(h.calls, c)
	h.mu.Unlock()
}

func (h *fakeHQ) urls(w http.ResponseWriter, r *http.Request) {
	body, _ := io.ReadAll(r.Body)
	switch r.Method {
	case http.MethodGet:
		size, _ := strconv.Atoi(r.URL.Query().Get("size"))
		h.mu.Lock()
		empty := len(h.queue) == 0
		h.mu.Unlock()
		if empty {
			w.WriteHeader(204)
			return
		}
		n, what, failed := h.fault("get", w)
		if failed {
			h.record(hqCall{Kind: "get", N: n, Fault: what})
			h.activity()
			return
		}
		if r.Context().Err() != nil {
			// the client gave up during the stall: claiming URLs now would hand them to nobody
			h.record(hqCall{Kind: "get", N: n, Fault: what + "-abandoned"})
			h.activity()
			return
		}
		h.mu.Lock()
		var out []hqURL
		for len(h.queue) > 0 && len(out) < max(1, size) {
			u := h.queue[0]
			h.queue = h.queue[1:]
			u.Status = "CLAIMED"
			h.claimed[u.ID] = u
			out = append(out, *u)
		}
		h.mu.Unlock()
		b, _ := json.Marshal(out)
		w.Header().Set("Content-Type", "application/json")
		w.WriteHeader(200)
		_, werr := w.Write(b)
		if fl, ok := w.(http.Flusher); ok {
			fl.Flush()
		}
		// Success = the answer was written to a client that was still there
		h.record(hqCall{Kind: "get", N: n, Fault: what, Status: 200, URLs: out, Success: werr == nil && r.Context().Err() == nil})
		h.activity()
	case http.MethodPost:
		var p struct {
			URLs []hqURL `json:"urls"`
		}
		json.Unmarshal(body, &p)
		n, what, failed := h.fault("add", w)
		h.activity()
		if failed {
			h.record(hqCall{Kind: "add", N: n, Fault: what, URLs: p.URLs})
			return
		}
		h.mu.Lock()
		for _, u := range p.URLs {
			if strings.Count(u.Path, "L") > h.maxHops+3 {
				continue
			}
			h.nextID++
			h.queue = append(h.queue, &hqURL{ID: fmt.Sprintf("seed-%06d", h.nextID), Value: u.Value, Via: u.Via, Path: u.Path, Status: "FRESH", Type: "seed"})
		}
		h.mu.Unlock()
		w.WriteHeader(201)
		h.record(hqCall{Kind: "add", N: n, Fault: what, Status: 201, URLs: p.URLs, Success: true})
	case http.MethodDelete:
		var p struct {
			URLs []hqURL `json:"urls"`
		}
		json.Unmarshal(body, &p)
		n, what, failed := h.fault("delete", w)
		h.activity()
		if failed {
			h.record(hqCall{Kind: "delete", N: n, Fault: what, URLs: p.URLs})
			return
		}
		h.mu.Lock()
		for _, u := range p.URLs {
			h.deleted[u.ID] = true
			delete(h.claimed, u.ID)
		}
		h.mu.Unlock()
		w.WriteHeader(204)
		h.record(hqCall{Kind: "delete", N: n, Fault: what, Status: 204, URLs: p.URLs, Success: true})
	}
}

func (h *fakeHQ) seencheck(w http.ResponseWriter, r *http.Request) {
	body, _ := io.ReadAll(r.Body)
	var in []hqURL
	json.Unmarshal(body, &in)
	h.activity()
	h.mu.Lock()
	var out []hqURL
	for _, u := range in {
		if _, ok := h.seen[u.Value]; !ok {
			h.seen[u.Value] = u.Type
			out = append(out, u)
		}
	}
	h.mu.Unlock()
	// the log keeps what was asked (URLs) and, as a second call, what was answered as unseen
	h.record(hqCall{Kind: "seencheck", URLs: in, Success: true, Status: 200})
	h.record(hqCall{Kind: "seencheck-unseen", URLs: out, Success: true, Status: 200})
	if len(out) == 0 {
		w.WriteHeader(204)
		return
	}
	b, _ := json.Marshal(out)
	w.Header().Set("Content-Type", "application/json")
	w.WriteHeader(200)
	w.Write(b)
}

func (h *fakeHQ) reset(w http.ResponseWriter, r *http.Request) {
	id := r.URL.Path[strings.LastIndex(r.URL.Path, "/")+1:]
	h.mu.Lock()
	if u, ok := h.claimed[id]; ok {
		u.Status = "FRESH"
		delete(h.claimed, id)
		h.queue = append(h.queue, u)
	}
	h.mu.Unlock()
	h.record(hqCall{Kind: "reset", URLs: []hqURL{{ID: id}}, Success: true, Status: 200})
	w.WriteHeader(200)
}

func (h *fakeHQ) snapshot() (calls []hqCall, claimed []hqURL, queued int) {
	h.mu.Lock()
	defer h.mu.Unlock()
	calls = append(calls, h.calls...)
	for _, u := range h.claimed {
		claimed = append(claimed, *u)
	}
	return calls, claimed, len(h.queue)
}
