// Package checks holds one workload + oracle + evidence writer per property.
package checks

import (
	"fmt"
	"os"
	"sort"

	"github.com/internetarchive/Zeno/internal/verif/vc"
)

type checkFn func(r *vc.Run) int
type childFn func(scenarioPath string) int

var (
	registry = map[string]checkFn{}
	children = map[string]childFn{}
)

func register(id string, f checkFn)     { registry[id] = f }
func registerChild(k string, f childFn) { children[k] = f }

// Run executes the check of one property.
func Run(id, tier string) int {
	f, ok := registry[id]
	if !ok {
		ids := []string{}
		for k := range registry {
			ids = append(ids, k)
		}
		sort.Strings(ids)
		fmt.Fprintf(os.Stderr, "unknown property %q (have %v)\n", id, ids)
		return 2
	}
	if tier != "quick" && tier != "thorough" {
		fmt.Fprintf(os.Stderr, "unknown tier %q\n", tier)
		return 2
	}
	return f(vc.NewRun(id, tier))
}

// Child runs a re-exec'd child of the given kind.
func Child(kind, scenario string) int {
	f, ok := children[kind]
	if !ok {
		fmt.Fprintf(os.Stderr, "unknown child kind %q\n", kind)
		return 2
	}
	return f(scenario)
}
