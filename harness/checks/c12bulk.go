package checks

import (
	"fmt"
	"os"
	"sync"
	"sync/atomic"
	"time"

	"github.com/internetarchive/Zeno/internal/pkg/reactor"
	"github.com/internetarchive/Zeno/pkg/models"
)

// C12, bulk runs: the statement quantifies over all token counts, the linearizability histories only
// use small ones (a history has to stay checkable). A bulk run drives one reactor with a token count
// from {1 .. 20000}: producers insert more seeds than there are tokens while the consumer is still
// away (the input side fills up to the token count), then a consumer that behaves like the pipeline
// takes every seed from the output, feeds it back once - synchronously, as the finisher does - takes it
// again and marks it finished. Asserted: (1) the run completes - "no insert, feedback, finish or
// delivery completed over three samples while operations are outstanding" is the deadlock verdict
// (feeding a tracked seed back never blocks); (2) every accepted seed comes out exactly twice (insert +
// feedback); (3) at the end tokens in use == tracked == 0; (4) the number of seeds in flight, counted
// conservatively (accepted when the insert has returned, finished when the finish is about to be
// called), never exceeds the token count.

func init() {
	registerChild("c12-bulk", c12BulkChild)
}

type c12BulkScenario struct {
	Seed      int64 `json:"seed"`
	Index     int   `json:"index"`
	Tokens    int   `json:"tokens"`
	Seeds     int   `json:"seeds"`
	Producers int   `json:"producers"`
	Consumers int   `json:"consumers"`
	OutBuf    int   `json:"out_buf"`
	HeadStart int   `json:"head_start_ms"` // how long the consumers stay away at the beginning
}

func c12BulkChild(scPath string) int {
	var sc c12BulkScenario
	if err := readJSON(scPath, &sc); err != nil {
		return 2
	}
	dir := os.Getenv("VZ_CHILD_DIR")
	zenoConfig(dir, false, nil)
	rep := newReport()
	defer rep.write(dir)
	out := make(chan *models.Item, sc.OutBuf)
	if err := reactor.Start(sc.Tokens, out); err != nil {
		rep.violation("harness/start", err.Error(), nil)
		return 0
	}
	var accepted, fedBack, finished, finishStarted, delivered, maxInFlight atomic.Int64
	var outstanding atomic.Int64 // calls into the reactor that have not returned
	var wg sync.WaitGroup
	per := sc.Seeds / sc.Producers
	for p := 0; p < sc.Producers; p++ {
		wg.Add(1)
		go func(p int) {
			defer wg.Done()
			for i := 0; i < per; i++ {
				it := c12Item(fmt.Sprintf("b%d-%d", p, i))
				outstanding.Add(1)
				err := reactor.ReceiveInsert(it)
				outstanding.Add(-1)
				if err != nil {
					rep.violation("bulk/insert-rejected", fmt.Sprintf("insert of %s on a running reactor: %v", it.GetID(), err), sc)
					return
				}
				n := accepted.Add(1) - finishStarted.Load()
				for {
					m := maxInFlight.Load()
					if n <= m || maxInFlight.CompareAndSwap(m, n) {
						break
					}
				}
			}
		}(p)
	}
	total := int64(per * sc.Producers)
	seen := sync.Map{} // id -> times delivered
	done := make(chan struct{})
	for c := 0; c < sc.Consumers; c++ {
		go func() {
			time.Sleep(time.Duration(sc.HeadStart) * time.Millisecond)
			for it := range out {
				delivered.Add(1)
				v, _ := seen.LoadOrStore(it.GetID(), new(atomic.Int64))
				k := v.(*atomic.Int64).Add(1)
				switch k {
				case 1:
					outstanding.Add(1)
					err := reactor.ReceiveFeedback(it)
					outstanding.Add(-1)
					if err != nil {
						rep.violation("bulk/feedback-rejected", fmt.Sprintf("feedback of the tracked seed %s: %v", it.GetID(), err), sc)
					}
					fedBack.Add(1)
				case 2:
					finishStarted.Add(1)
					outstanding.Add(1)
					err := reactor.MarkAsFinished(it)
					outstanding.Add(-1)
					if err != nil {
						rep.violation("bulk/finish-rejected", fmt.Sprintf("finish of the tracked seed %s: %v", it.GetID(), err), sc)
					}
					if finished.Add(1) == total {
						close(done)
					}
				default:
					rep.violation("bulk/delivered-too-often", fmt.Sprintf("%s came out of the reactor %d times (one insert, one feedback)", it.GetID(), k), sc)
				}
			}
		}()
	}
	// deadlock verdict: no counter moved over three samples while work is outstanding
	progress := func() [4]int64 { return [4]int64{accepted.Load(), fedBack.Load(), finished.Load(), delivered.Load()} }
	stuck := false
	func() {
		last := progress()
		same := 0
		for {
			select {
			case <-done:
				return
			case <-time.After(1500 * time.Millisecond):
			}
			cur := progress()
			if cur == last {
				same++
			} else {
				same = 0
			}
			last = cur
			if same >= 3 {
				stuck = true
				return
			}
		}
	}()
	rep.Evaluations = 1
	rep.event("bulk_seeds", int(total))
	rep.event("bulk_deliveries", int(delivered.Load()))
	rep.distinct(fmt.Sprintf("bulk/tokens=%d/consumers=%d/outbuf=%d", sc.Tokens, sc.Consumers, sc.OutBuf))
	w := map[string]any{"scenario": sc, "accepted": accepted.Load(), "fed_back": fedBack.Load(), "finished": finished.Load(), "delivered": delivered.Load(), "calls_outstanding": outstanding.Load(), "tokens_in_use": reactor.VerifTokensInUse(), "tracked": len(reactor.GetStateTable()), "input_len": reactor.VerifInputLen()}
	if stuck {
		w["parked"] = stuckFrames(goroutineDump())
		rep.violation("bulk/reactor-deadlock", fmt.Sprintf("tokens=%d: no insert, feedback, finish or delivery completed over three samples although %d of %d seeds are unfinished and %d call(s) into the reactor have not returned (accepted %d, fed back %d, delivered %d, input holds %d)", sc.Tokens, total-finished.Load(), total, outstanding.Load(), accepted.Load(), fedBack.Load(), delivered.Load(), reactor.VerifInputLen()), w)
		return 0 // the reactor cannot be stopped while senders are parked in it
	}
	wg.Wait()
	if m := maxInFlight.Load(); m > int64(sc.Tokens) {
		rep.violation("bulk/in-flight-above-tokens", fmt.Sprintf("tokens=%d but %d seeds were accepted and unfinished at the same time", sc.Tokens, m), w)
	}
	if delivered.Load() != 2*total {
		rep.violation("bulk/delivery-count", fmt.Sprintf("%d seeds accepted and fed back once each, %d deliveries (expected %d)", total, delivered.Load(), 2*total), w)
	}
	if t, n := reactor.VerifTokensInUse(), len(reactor.GetStateTable()); t != 0 || n != 0 {
		rep.violation("bulk/not-idle-at-the-end", fmt.Sprintf("all %d seeds are finished but %d tokens are in use and %d seeds tracked", total, t, n), w)
	}
	reactor.Stop()
	return 0
}
