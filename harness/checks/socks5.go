package checks

import (
	"encoding/binary"
	"fmt"
	"io"
	"net"
	"sync/atomic"
)

// Minimal SOCKS5 proxy (no authentication, CONNECT only) for the --proxy configurations.
type socks5 struct {
	ln    net.Listener
	Port  int
	Conns atomic.Int64
}

func newSocks5() (*socks5, error) {
	ln, err := net.Listen("tcp4", "127.0.0.1:0")
	if err != nil {
		return nil, err
	}
	s := &socks5{ln: ln, Port: ln.Addr().(*net.TCPAddr).Port}
	go func() {
		for {
			c, err := ln.Accept()
			if err != nil {
				return
			}
			go s.serve(c)
		}
	}()
	return s, nil
}

func (s *socks5) serve(c net.Conn) {
	defer c.Close()
	buf := make([]byte, 262)
	if _, err := io.ReadFull(c, buf[:2]); err != nil || buf[0] != 5 {
		return
	}
	if _, err := io.ReadFull(c, buf[:int(buf[1])]); err != nil {
		return
	}
	c.Write([]byte{5, 0})
	if _, err := io.ReadFull(c, buf[:4]); err != nil || buf[1] != 1 {
		return
	}
	var host string
	switch buf[3] {
	case 1:
		io.ReadFull(c, buf[:4])
		host = net.IP(buf[:4]).String()
	case 3:
		io.ReadFull(c, buf[:1])
		n := int(buf[0])
		io.ReadFull(c, buf[:n])
		host = string(buf[:n])
	case 4:
		io.ReadFull(c, buf[:16])
		host = net.IP(buf[:16]).String()
	default:
		return
	}
	io.ReadFull(c, buf[:2])
	port := binary.BigEndian.Uint16(buf[:2])
	up, err := net.Dial("tcp", net.JoinHostPort(host, fmt.Sprint(port)))
	if err != nil {
		c.Write([]byte{5, 5, 0, 1, 0, 0, 0, 0, 0, 0})
		return
	}
	defer up.Close()
	s.Conns.Add(1)
	c.Write([]byte{5, 0, 0, 1, 0, 0, 0, 0, 0, 0})
	done := make(chan struct{}, 2)
	// relay both directions; when one side ends (EOF or reset) the other side is told at once
	go func() { io.Copy(up, c); up.(*net.TCPConn).CloseWrite(); done <- struct{}{} }()
	go func() {
		_, err := io.Copy(c, up)
		if tc, ok := c.(*net.TCPConn); ok {
			if err != nil {
				tc.SetLinger(0) // the origin reset the connection: reset the client side as well
				tc.Close()
			} else {
				tc.CloseWrite()
			}
		}
		done <- struct{}{}
	}()
	<-done
	<-done
}
