package checks

import (
	"fmt"
	"math/rand"
	"net/http"
	"os"
	"path/filepath"
	"strings"
	"sync"
	"sync/atomic"
	"time"

	"github.com/internetarchive/Zeno/internal/pkg/config"
	"github.com/internetarchive/Zeno/internal/verif/vc"
	"github.com/internetarchive/Zeno/pkg/models"
)

// C08 — seen URLs are not refetched; nothing is skipped as seen unless the store said so (local store).
//
// Real preprocessor stage + real LevelDB seencheck. Histories of seeds whose pages reference assets
// from a small pool in several spellings of the same URL; sequential and concurrent (several seeds in
// flight over 4-8 preprocessor workers). The oracle uses the real-time order at the stage boundary:
// every seencheck of an item happens inside the [before, after] stamps of its preprocessor pass.

func init() {
	register("C08", c08)
	registerChild("c08", c08Child)
}

type c08Scenario struct {
	Seed      int64 `json:"seed"`
	Index     int   `json:"index"`
	Histories int   `json:"histories"`
	Workers   int   `json:"workers"`
	InFlight  int   `json:"in_flight"`
}

type c08Check struct {
	Key     string // reference canonical URL
	Typ     string // seed | asset
	S, E    int64
	Fetched bool
	Item    string
	Raw     string
	Parent  string
	Crawl   string
}

// poolURL is one logical URL with its spellings.
type poolURL struct {
	Canon     string
	Spellings []string // as they may appear on a page of host pool.example
}

func c08Pool(prefix string) []poolURL {
	mk := func(path, query string) poolURL {
		canon := "https://pool.example/" + prefix + path
		if query != "" {
			canon += "?" + query
		}
		rel := "/" + prefix + path
		q := ""
		if query != "" {
			q = "?" + query
		}
		return poolURL{Canon: canon, Spellings: []string{
			canon, rel + q, canon + "#frag", "'" + rel + q + "'", "HTTPS://POOL.EXAMPLE/" + prefix + path + q, "https://pool.example:443/" + prefix + path + q,
			"/" + prefix + "zz/../" + path + q, "//pool.example/" + prefix + path + q,
		}}
	}
	return []poolURL{
		mk("a/x.png", ""), mk("a/y.js", "v=1"), mk("a/z.css", "b=2&a=1"), mk("img/p.jpg", "w=10&h=20&fmt=webp"), mk("img/q.gif", "k=1&k=2&k=1"),
		mk("d/data.json", "page=1&size=5"), mk("d/more.json", ""), mk("f/font.woff2", "a=&b=x"), mk("v/clip.mp4", "t=A-b_c.d~e"), mk("s/app.js", "x=1&y=2&z=3&w=4"),
	}
}

func c08Child(scPath string) int {
	var sc c08Scenario
	if err := readJSON(scPath, &sc); err != nil {
		return 2
	}
	dir := os.Getenv("VZ_CHILD_DIR")
	rep := newReport()
	defer rep.write(dir)
	zenoConfig(dir, false, func(c *config.Config) {
		c.WorkersCount = sc.Workers
		c.MaxHops = 0
	})
	h, err := startStages(true)
	if err != nil {
		rep.violation("harness/start", err.Error(), nil)
		return 0
	}
	var stamp atomic.Int64
	h.stamp = func() int64 { return stamp.Add(1) }
	var mu sync.Mutex
	var checks []c08Check
	keyOf := map[string]string{} // item id -> reference canonical
	typOf := map[string]string{}
	rawOf := map[string][2]string{}
	crawlOf := map[string]string{}
	origRaw := map[string]string{} // item id -> raw text as extracted (NormalizeURL rewrites URL.Raw)
	var canonOfFn func(spelling, pageURL string) string
	h.onPost = func(seed *models.Item) {
		mu.Lock()
		defer mu.Unlock()
		seed.Traverse(func(it *models.Item) {
			if _, ok := origRaw[it.GetID()]; !ok && it.GetStatus() == models.ItemFresh {
				origRaw[it.GetID()] = it.GetURL().Raw
			}
		})
	}
	h.onPre = func(pass int, seed *models.Item, before, after int64) {
		mu.Lock()
		defer mu.Unlock()
		seed.Traverse(func(it *models.Item) {
			if _, ok := keyOf[it.GetID()]; ok || it.GetParent() == nil {
				return
			}
			par := it.GetParent()
			pk := keyOf[par.GetID()]
			raw, okRaw := origRaw[it.GetID()]
			if pk == "" || !okRaw {
				return
			}
			typ := "asset"
			if par.GetStatus() == models.ItemGotRedirected {
				typ = "seed"
			}
			keyOf[it.GetID()], typOf[it.GetID()], rawOf[it.GetID()], crawlOf[it.GetID()] = canonOfFn(raw, pk), typ, [2]string{raw, pk}, crawlOf[seed.GetID()]
		})
		seed.Traverse(func(it *models.Item) {
			if int(it.GetDepth()) != pass {
				return
			}
			k, ok := keyOf[it.GetID()]
			if !ok {
				return
			}
			st := it.GetStatus()
			if st != models.ItemPreProcessed && st != models.ItemSeen {
				return
			}
			checks = append(checks, c08Check{Key: k, Typ: typOf[it.GetID()], S: before, E: after, Fetched: st == models.ItemPreProcessed, Item: it.GetID(), Raw: rawOf[it.GetID()][0], Parent: rawOf[it.GetID()][1], Crawl: crawlOf[it.GetID()]})
		})
	}

	for hi := 0; hi < sc.Histories; hi++ {
		rng := rand.New(rand.NewSource(vc.DeriveSeed(sc.Seed, "C08", "history", sc.Index, hi)))
		prefix := fmt.Sprintf("h%dx%d/", sc.Index, hi)
		pool := c08Pool(prefix)
		mu.Lock()
		checks = checks[:0]
		mu.Unlock()
		nCrawls := 30 + rng.Intn(20)
		type plan struct {
			id, seedURL string
			assets      []string // spellings
			nested      map[string][]string
			redirectTo  string
			jsonMembers map[string][]string
		}
		plans := make([]plan, nCrawls)
		for ci := range plans {
			p := plan{id: fmt.Sprintf("%sc%d", prefix, ci), nested: map[string][]string{}}
			// seed: a fresh page, or (1 in 4) a pool URL used as a seed (promotion / repeated seed)
			if rng.Intn(4) == 0 {
				pu := pool[rng.Intn(len(pool))]
				p.seedURL = pu.Spellings[[]int{0, 2, 5}[rng.Intn(3)]]
			} else {
				p.seedURL = fmt.Sprintf("https://pool.example/%spage%d.html", prefix, ci)
			}
			if rng.Intn(6) == 0 {
				pu := pool[rng.Intn(len(pool))]
				p.redirectTo = pu.Spellings[rng.Intn(len(pu.Spellings))]
			}
			for k := 0; k < 1+rng.Intn(6); k++ {
				pu := pool[rng.Intn(len(pool))]
				p.assets = append(p.assets, pu.Spellings[rng.Intn(len(pu.Spellings))])
			}
			// assets that redirect to pool URLs: their targets are checked as "seed"-type items in a batch with other items
			for k := 0; k < rng.Intn(3); k++ {
				pu := pool[rng.Intn(len(pool))]
				ru := fmt.Sprintf("/%sredir/c%d-%d", prefix, ci, k)
				p.assets = append(p.assets, ru)
				p.nested[ru] = []string{pu.Spellings[rng.Intn(len(pu.Spellings))]}
			}
			// a JSON asset with planned members plus an asset that reaches one of those members through a
			// two-step redirect chain: the member is fetched (and its JSON parent completed) one pass before
			// the chain's target comes up for the same URL
			if rng.Intn(3) == 0 {
				ju := fmt.Sprintf("/%sd/list%d.json", prefix, ci)
				var members []string
				for k := 0; k < 1+rng.Intn(2); k++ {
					members = append(members, pool[rng.Intn(len(pool))].Canon)
				}
				p.assets = append(p.assets, ju)
				p.jsonMembers = map[string][]string{ju: members}
				hop1 := fmt.Sprintf("/%sredir2/c%d", prefix, ci)
				hop2 := fmt.Sprintf("/%sredir/c%d-late", prefix, ci)
				p.assets = append(p.assets, hop1)
				p.nested[hop1] = []string{hop2}
				p.nested[hop2] = []string{members[rng.Intn(len(members))]}
			}
			plans[ci] = p
		}
		// JSON assets reference further pool members (absolute spellings only)
		nestedOf := func(r *rand.Rand) string {
			var parts []string
			for k := 0; k < 1+r.Intn(3); k++ {
				parts = append(parts, fmt.Sprintf("%q", pool[r.Intn(len(pool))].Canon))
			}
			return "[" + strings.Join(parts, ",") + "]"
		}
		canonOf := func(spelling, pageURL string) string {
			if strings.HasPrefix(strings.Trim(spelling, `"'`), "//") {
				spelling = "https:" + strings.Trim(spelling, `"'`)
			}
			s := strings.Trim(spelling, `"'`)
			abs := resolveRef(pageURL, strings.Replace(strings.Replace(s, "HTTPS://POOL.EXAMPLE", "https://pool.example", 1), "#frag", "", 1))
			return c07Canon(abs)
		}
		canonOfFn = canonOf
		run := func(ci int) {
			p := plans[ci]
			r2 := rand.New(rand.NewSource(vc.DeriveSeed(sc.Seed, "C08", "crawl", sc.Index, hi, ci)))
			seed, err := newSeed(p.id, strings.Trim(p.seedURL, "'"), "", 0)
			if err != nil {
				return
			}
			seedCanon := canonOf(p.seedURL, "https://pool.example/")
			mu.Lock()
			keyOf[p.id], typOf[p.id], rawOf[p.id], crawlOf[p.id] = seedCanon, "seed", [2]string{p.seedURL, ""}, p.id
			mu.Unlock()
			var imgs strings.Builder
			for _, a := range p.assets {
				fmt.Fprintf(&imgs, "<img src=\"%s\">\n", strings.ReplaceAll(a, "&", "&amp;"))
			}
			page := "<html><body>\n" + imgs.String() + "</body></html>"
			// children are created by the postprocessor; key them before the next preprocessor pass by wrapping fetch
			cr := h.crawl(seed, func(it *models.Item, wire string) *fakeResp {
				switch {
				case it.GetDepth() == 0 && p.redirectTo != "":
					return &fakeResp{Status: 302, Header: http.Header{"Location": {strings.Trim(p.redirectTo, "'")}}}
				case it.GetParent() == nil || it.GetParent().GetStatus() == models.ItemGotRedirected && it.GetDepth() == 1:
					return &fakeResp{Status: 200, Header: http.Header{"Content-Type": {"text/html"}}, Body: []byte(page)}
				case strings.Contains(wire, "/redir/"), strings.Contains(wire, "/redir2/"):
					for ru, to := range p.nested {
						if strings.HasSuffix(wire, ru) {
							return &fakeResp{Status: 301, Header: http.Header{"Location": {strings.Trim(to[0], "'")}}}
						}
					}
					return leafResp()
				case strings.Contains(wire, "/d/list") && p.jsonMembers != nil:
					for ju, members := range p.jsonMembers {
						if strings.HasSuffix(wire, ju) {
							var parts []string
							for _, m := range members {
								parts = append(parts, fmt.Sprintf("%q", m))
							}
							return &fakeResp{Status: 200, Header: http.Header{"Content-Type": {"application/json"}}, Body: []byte("[" + strings.Join(parts, ",") + "]")}
						}
					}
					return leafResp()
				case strings.Contains(wire, ".json"):
					return &fakeResp{Status: 200, Header: http.Header{"Content-Type": {"application/json"}}, Body: []byte(nestedOf(r2))}
				}
				return leafResp()
			}, 10)
			_ = cr
		}
		if sc.InFlight <= 1 {
			for ci := range plans {
				run(ci)
			}
		} else {
			parallel(len(plans), sc.InFlight, run)
		}
		rep.Evaluations++
		// ---- oracle over the recorded checks ----
		mu.Lock()
		cs := append([]c08Check(nil), checks...)
		mu.Unlock()
		rep.event("seenchecks_observed", len(cs))
		byKey := map[string][]int{}
		for i, c := range cs {
			byKey[c.Key] = append(byKey[c.Key], i)
		}
		fetchedInCrawl := map[string]string{}
		for i, c := range cs {
			if c.Fetched {
				rep.event("fetched", 1)
			} else {
				rep.event("skipped", 1)
			}
			// (b) same URL fetched by two non-seed nodes of one tree
			if c.Fetched && c.Parent != "" {
				k := c.Crawl + "|" + c.Key
				if other, dup := fetchedInCrawl[k]; dup && other != c.Item {
					rep.violation("same-url-fetched-twice-in-one-tree", fmt.Sprintf("%s fetched by nodes %s and %s of seed %s", c.Key, other, c.Item, c.Crawl), nil)
				}
				fetchedInCrawl[k] = c.Item
			}
			strongestBefore, overlapBlocking := "", false
			for _, j := range byKey[c.Key] {
				if j == i {
					continue
				}
				o := cs[j]
				if o.E < c.S {
					if o.Typ == "seed" || strongestBefore == "" {
						strongestBefore = o.Typ
					}
				}
				if o.S < c.E && (o.Typ == "seed" || c.Typ == "asset") {
					overlapBlocking = true
				}
			}
			mustSkip := strongestBefore == "seed" || (strongestBefore == "asset" && c.Typ == "asset")
			overlapped := false
			for _, j := range byKey[c.Key] {
				if j != i && cs[j].S < c.E && cs[j].E > c.S {
					overlapped = true
				}
			}
			class := c.Typ + "/"
			switch {
			case mustSkip:
				class += "must-skip"
			case strongestBefore == "asset":
				class += "promotion"
			case overlapped:
				class += "concurrent-duplicate"
			default:
				class += "first-sight"
			}
			rep.distinct(class + "/" + spellingClass(c.Raw))
			if mustSkip && c.Fetched {
				rep.violation("refetched-seen-url/"+c.Typ, fmt.Sprintf("%s (text %q, parent %q, as %s) was fetched again although a check of the same URL as %s had completed before (stamps: earlier check ended < %d)", c.Key, c.Raw, c.Parent, c.Typ, strongestBefore, c.S),
					map[string]any{"check": c, "history": c08Related(cs, byKey[c.Key])})
			}
			if !c.Fetched && !overlapBlocking {
				rep.violation("skipped-although-unseen/"+c.Typ, fmt.Sprintf("%s (text %q, parent %q, as %s) was skipped as seen but no check that could have recorded it started before", c.Key, c.Raw, c.Parent, c.Typ),
					map[string]any{"check": c, "history": c08Related(cs, byKey[c.Key])})
			}
		}
		if hi%40 == 2 {
			rep.sample(map[string]any{"history": hi, "crawls": nCrawls, "checks": len(cs), "first_checks": c08Related(cs, firstIdx(len(cs), 6))}, 2)
		}
	}
	return 0
}

func firstIdx(n, k int) []int {
	var l []int
	for i := 0; i < n && i < k; i++ {
		l = append(l, i)
	}
	return l
}

func spellingClass(raw string) string {
	switch {
	case strings.Contains(raw, "#"):
		return "fragment"
	case strings.HasPrefix(raw, "'"):
		return "quoted"
	case strings.HasPrefix(raw, "HTTPS"):
		return "uppercase"
	case strings.Contains(raw, ":443"):
		return "default-port"
	case strings.Contains(raw, ".."):
		return "dot-segments"
	case strings.HasPrefix(raw, "//"):
		return "scheme-relative"
	case strings.HasPrefix(raw, "/"):
		return "path-absolute"
	}
	return "absolute"
}

func c08Related(cs []c08Check, idx []int) []string {
	var l []string
	for _, j := range idx {
		c := cs[j]
		l = append(l, fmt.Sprintf("[%d,%d] %s %s fetched=%v raw=%q crawl=%s", c.S, c.E, c.Typ, c.Key, c.Fetched, c.Raw, c.Crawl))
	}
	return l
}

func c08(r *vc.Run) int {
	nChildren := r.N(8, 32)
	histories := r.N(40, 200)
	m := newMerged()
	parallel(nChildren, 12, func(i int) {
		sc := c08Scenario{Seed: r.Seed, Index: i, Histories: histories, Workers: []int{1, 4, 8, 6}[i%4], InFlight: []int{1, 4, 8, 6}[i%4]}
		res := runChild(os.Getenv("VZ_BIN"), "c08", sc, filepath.Join(r.Scratch, fmt.Sprintf("c08-%d", i)), 25*time.Minute)
		absorb(r, m, res, fmt.Sprintf("child%d", i), sc, true)
	})
	// crawl-HQ seen-store: full-pipeline runs in HQ mode against the HQ double (same child as C15)
	hqRuns := r.N(4, 24)
	hqChecked := 0
	var hmu sync.Mutex
	parallel(hqRuns, 8, func(i int) {
		sc := c15Scenario{Seed: r.Seed, Index: 7000 + i, NPages: 14, MaxHops: 2,
			Cfg: pipeConfig{Workers: 1 + i%3, MaxConcurrentAssets: 2, MaxHops: 2, MaxRedirect: 5, WARCPoolSize: 1, UseHQ: true, HQBatchSize: 5}}
		dir := filepath.Join(r.Scratch, fmt.Sprintf("c08-hq-%d", i))
		res := runChild(os.Getenv("VZ_BIN"), "pipe-c15", sc, dir, 7*time.Minute)
		rep := absorb(&discardSink{}, newMerged(), res, fmt.Sprintf("hq-run%d", i), sc, false)
		if rep == nil {
			r.Inconclusive("hq-run-no-report")
		} else {
			hmu.Lock()
			hqChecked += rep.Events["hq_unseen_assets_with_odd_query"]
			hmu.Unlock()
			if l, ok := rep.Extra["c08"].([]any); ok {
				for _, v := range l {
					if mm, ok := v.(map[string]any); ok {
						r.Violation(fmt.Sprint(mm["sig"]), fmt.Sprintf("hq-run%d: %v", i, mm["what"]), map[string]any{"scenario": sc})
					}
				}
			}
		}
		os.RemoveAll(dir)
	})
	cov := map[string]any{
		"hq_mode_runs":              hqRuns,
		"hq_unseen_answers_checked": hqChecked,
		"evaluations":               m.Evaluations,
		"distinct_nontrivial":       len(m.Distinct),
		"rule":                      "one evaluation = one history of 30-50 seeds (pages with 1-6 assets from a pool of 10 URLs in 8 spellings, nested JSON assets, redirects, pool URLs reused as seeds) through the real preprocessor stage with the real LevelDB seencheck, sequential or with 4-8 seeds in flight; distinct = distinct (item type, situation in {first-sight, must-skip, promotion, concurrent-duplicate}, spelling) classes observed",
		"samples":                   m.Samples,
		"events":                    m.Events,
		"classes":                   m.Distinct,
	}
	if cov["samples"] == nil {
		cov["samples"] = []any{}
	}
	return r.Finish("exploration", cov, []string{
		"reference canonical URL = own resolver + lower-casing + default-port and fragment removal on pool spellings (never Zeno's canonicaliser)",
		"real-time order from stamps taken around each preprocessor pass: a check that ended before another started must be honoured; overlapping checks of the same URL may both fetch",
		"crawl-HQ store: in full-pipeline HQ-mode runs against the HQ double, an asset the double answered as unseen (including assets whose canonical string differs from the text sent) must be fetched",
	}, 12)
}
