package checks

import (
	"context"
	"fmt"
	"os"
	"path/filepath"
	"sort"
	"strings"
	"time"

	"github.com/internetarchive/Zeno/internal/pkg/config"
	"github.com/internetarchive/Zeno/internal/pkg/source/lq"
	"github.com/internetarchive/Zeno/internal/pkg/source/lq/sqlc_model"
)

// C04, queue level: histories of Add / Get (claim) / Delete on the REAL local queue (sqlite file in a
// scratch job directory), abandoned at every operation boundary and re-opened with lq.Init() the way a
// restarted job opens it - after 0 ms, a few ms, a few hundred ms or more than a second. Every lq
// operation commits before it returns, so dropping the client leaves exactly the on-disk state a
// SIGKILL at that boundary leaves. The full-pipeline pairs cannot restart in under a second (opening
// sqlite alone takes longer); this monitor covers the short restart delays.
//
// Oracle = sequential reference model of the queue across restarts: a row is FRESH after Add (a value
// already present is not added twice), CLAIMED after Get, gone after Delete, and FRESH again after a
// restart. After every restart the queue is drained with Get: the values that come out must be exactly
// the rows the model holds (none stranded as handed-out, none resurrected, none twice).

func init() {
	registerChild("c04-queue", c04QueueChild)
}

type c04QueueScenario struct {
	Seed      int64 `json:"seed"`
	Index     int   `json:"index"`
	Histories int   `json:"histories"`
}

type c04qOp struct {
	Op     string   `json:"op"`
	Values []string `json:"values,omitempty"`
	Limit  int      `json:"limit,omitempty"`
	Got    []string `json:"got,omitempty"`
	Delay  int      `json:"restart_delay_ms,omitempty"`
}

func c04QueueChild(scPath string) int {
	var sc c04QueueScenario
	if err := readJSON(scPath, &sc); err != nil {
		return 2
	}
	dir := os.Getenv("VZ_CHILD_DIR")
	rep := newReport()
	defer rep.write(dir)
	zenoConfig(dir, false, nil)
	ctx := context.Background()
	lq.VerifUseClient(nil) // sets up the package logger before the first Init
	for h := 0; h < sc.Histories; h++ {
		rng := pipeRand(sc.Seed, "c04queue", sc.Index, h)
		job := filepath.Join(dir, fmt.Sprintf("jobs/q%d", h))
		os.MkdirAll(job, 0o755)
		config.Get().JobPath = job
		open := func() (*lq.LQClient, error) {
			c, err := lq.Init("j")
			if err == nil {
				lq.VerifUseClient(c)
			}
			return c, err
		}
		c, err := open()
		if err != nil {
			rep.inconclusive("lq-init-failed")
			continue
		}
		model := map[string]string{}  // value -> FRESH | CLAIMED
		before := map[string]string{} // status at the moment of the last death
		ids := map[string]string{}    // value -> id handed out by the last claim
		var hist []c04qOp
		nextVal := 0
		fail := func(sig, what string) {
			rep.violation(sig, fmt.Sprintf("history %d/%d: %s", sc.Index, h, what), map[string]any{"seed": sc.Seed, "index": sc.Index, "history": h, "ops": hist})
		}
		drain := func(why string) bool {
			seen := map[string]int{}
			for round := 0; round < 1000; round++ {
				rows, err := c.Get(ctx, 1+rng.Intn(4))
				if err != nil {
					rep.inconclusive("lq-get-error")
					return false
				}
				if len(rows) == 0 {
					break
				}
				for _, r := range rows {
					seen[r.Value]++
					ids[r.Value] = r.ID
				}
			}
			var got []string
			for v := range seen {
				got = append(got, v)
			}
			sort.Strings(got)
			hist = append(hist, c04qOp{Op: "drain(" + why + ")", Got: got})
			ok := true
			for v := range model {
				rep.event("rows_expected_after_restart", 1)
				if seen[v] == 0 {
					fail("row-stranded-after-restart/"+strings.ToLower(before[v]), fmt.Sprintf("after the restart the queue never hands out %s again although it was %s when the process died and had not been deleted", v, before[v]))
					ok = false
				}
			}
			for v, n := range seen {
				if _, want := model[v]; !want {
					fail("deleted-row-resurrected", fmt.Sprintf("%s was deleted (reported finished) before the restart and came out of the queue again", v))
					ok = false
				}
				if n > 1 {
					fail("row-handed-out-twice", fmt.Sprintf("%s came out of the queue %d times in one drain", v, n))
					ok = false
				}
			}
			for v := range model {
				if seen[v] > 0 {
					model[v] = "CLAIMED"
				}
			}
			return ok
		}
		nOps := 12 + rng.Intn(25)
		restarts := 0
		for i := 0; i < nOps; i++ {
			switch x := rng.Intn(10); {
			case x < 3: // add new values, sometimes one that is already waiting
				var vals []string
				var urls []sqlc_model.Url
				for k := 0; k < 1+rng.Intn(4); k++ {
					v := fmt.Sprintf("http://q%d.example/p%d", h, nextVal)
					nextVal++
					if rng.Intn(5) == 0 && len(model) > 0 {
						for ev := range model { // any existing value (map order is fine: only the model decides)
							v = ev
							break
						}
					}
					vals = append(vals, v)
					urls = append(urls, sqlc_model.Url{Value: v, Via: "http://via.example/", Hops: int64(rng.Intn(3))})
				}
				if err := c.Add(ctx, urls, false); err != nil {
					rep.inconclusive("lq-add-error")
					break
				}
				for _, v := range vals {
					if _, ok := model[v]; !ok {
						model[v] = "FRESH"
					}
				}
				hist = append(hist, c04qOp{Op: "add", Values: vals})
			case x < 6: // claim
				limit := 1 + rng.Intn(4)
				rows, err := c.Get(ctx, limit)
				if err != nil {
					rep.inconclusive("lq-get-error")
					break
				}
				var got []string
				for _, r := range rows {
					got = append(got, r.Value)
					if model[r.Value] != "FRESH" {
						fail("claimed-row-not-fresh", fmt.Sprintf("Get handed out %s whose status in the reference model is %q", r.Value, model[r.Value]))
					}
					model[r.Value] = "CLAIMED"
					ids[r.Value] = r.ID
				}
				hist = append(hist, c04qOp{Op: "get", Limit: limit, Got: got})
			case x < 8: // finish some claimed rows
				var urls []sqlc_model.Url
				var vals []string
				for v, st := range model {
					if st == "CLAIMED" && len(urls) < 1+rng.Intn(3) {
						urls = append(urls, sqlc_model.Url{ID: ids[v], Value: v})
						vals = append(vals, v)
					}
				}
				if len(urls) == 0 {
					break
				}
				if err := c.Delete(ctx, urls, false); err != nil {
					rep.inconclusive("lq-delete-error")
					break
				}
				for _, v := range vals {
					delete(model, v)
				}
				hist = append(hist, c04qOp{Op: "delete", Values: vals})
			default: // the process dies here; the job is started again after a delay
				delay := []int{0, 0, 3, 40, 350, 1100}[rng.Intn(6)]
				time.Sleep(time.Duration(delay) * time.Millisecond)
				nc, err := open()
				if err != nil {
					rep.inconclusive("lq-reinit-failed")
					break
				}
				c = nc
				restarts++
				nClaimed := 0
				before = map[string]string{}
				for v, st := range model {
					if st == "CLAIMED" {
						nClaimed++
					}
					before[v] = st
					model[v] = "FRESH"
				}
				hist = append(hist, c04qOp{Op: "die+restart", Delay: delay})
				rep.event("restarts", 1)
				rep.distinct(fmt.Sprintf("restart/delay=%dms/claimed>0=%v/rows>0=%v", delay, nClaimed > 0, len(model) > 0))
				drain("after restart")
			}
		}
		rep.Evaluations++
		rep.event("queue_ops", len(hist))
		if restarts == 0 {
			rep.event("histories_without_restart", 1)
		}
		rep.sample(map[string]any{"history": h, "ops": hist}, 1)
	}
	return 0
}
