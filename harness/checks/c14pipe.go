package checks

import (
	"fmt"
	"os"
	"path/filepath"
	"sync/atomic"
	"time"

	"github.com/internetarchive/Zeno/internal/pkg/controler/pause"
)

// C14, pipeline level: the stages are connected to each other as in production (stage channels of
// capacity --workers), so a worker that was in the middle of an item when the pause landed can only
// reach its own pause acknowledgement after a downstream worker - already parked - has been resumed.
// A pause is fired by a trigger on a pipeline event (the hub page entering the postprocessor: more
// outlinks than the channel buffers; the k-th fetch; a hand-over between stages), Resume() is called
// once m workers have acknowledged, and the run must then drain completely.
//
// Oracle: every Pause()/Resume() call returns; after the last Resume the pipeline reaches quiescence
// with no tracked seed (all workers were woken). "Never returns" is decided structurally: the call is
// outstanding while no hook event and no origin request happened for the stuck window.

func init() {
	registerChild("pipe-c14", c14PipeChild)
}

type c14PipeScenario struct {
	Seed      int64      `json:"seed"`
	Index     int        `json:"index"`
	Cfg       pipeConfig `json:"cfg"`
	PausePt   string     `json:"pause_point"`
	PauseOcc  int        `json:"pause_occurrence"`
	ResumeAck int        `json:"resume_after_acks"`
	Cycles    int        `json:"cycles"`
	NSeeds    int        `json:"n_seeds"`
}

func c14PipeChild(scPath string) int {
	var sc c14PipeScenario
	if err := readJSON(scPath, &sc); err != nil {
		return 2
	}
	dir := os.Getenv("VZ_CHILD_DIR")
	rep := newReport()
	defer rep.write(dir)
	pr := newPipeRun(dir, sc.Cfg)
	org, err := newOrigin(pr.nextSeq)
	if err != nil {
		return 2
	}
	pr.org = org
	site := &genSite{o: org, port: org.Port, rng: pipeRand(sc.Seed, "c14site", sc.Index)}
	site.build(sc.NSeeds, 1)
	if err := pr.applyConfig(site.Hubs); err != nil {
		return 2
	}
	pr.perturb, pr.perturbSeed = 1, vc14Seed(sc.Seed, sc.Index)
	var pauseCalled, pauseReturned, resumeCalled, resumeReturned atomic.Int64
	var acksSincePause atomic.Int64
	var cycle atomic.Int64
	doPause := func() {
		if !pauseCalled.CompareAndSwap(cycle.Load(), cycle.Load()+1) {
			return
		}
		acksSincePause.Store(0)
		go func() {
			pause.Pause([]string{"Paused", "Not enough disk space!!!", "WARC writing queue exceeded the worker count"}[int(cycle.Load())%3])
			pauseReturned.Add(1)
			pr.lastActivity.Store(pr.nextSeq())
		}()
	}
	doResume := func() {
		if !resumeCalled.CompareAndSwap(cycle.Load(), cycle.Load()+1) {
			return
		}
		go func() {
			pause.Resume()
			resumeReturned.Add(1)
			cycle.Add(1)
			pr.lastActivity.Store(pr.nextSeq())
		}()
	}
	occ := map[string]int{}
	pr.eventHooks = append(pr.eventHooks, func(e pipeEvent) {
		switch e.Point {
		case sc.PausePt:
			// called under no lock of the pipeline; occurrences are counted per cycle
			pr.evMu.Lock()
			occ[e.Point]++
			n := occ[e.Point]
			pr.evMu.Unlock()
			if int(cycle.Load()) < sc.Cycles && n == sc.PauseOcc*(int(cycle.Load())+1) {
				doPause()
			}
		case "pause.ack":
			if pauseCalled.Load() > resumeCalled.Load() && int(acksSincePause.Add(1)) >= sc.ResumeAck {
				doResume()
			}
		}
	})
	pr.installHooks(false)
	pr.start(false)
	verdict := pr.waitQuiescent(6500*time.Millisecond, 12*time.Second, 150*time.Second)
	rep.Evaluations = 1
	rep.Extra["verdict"] = verdict
	// a pause whose acknowledgements never reached the resume threshold: resume now (as an operator would)
	if pauseCalled.Load() > resumeCalled.Load() {
		rep.event("resume_by_driver", 1)
		doResume()
		verdict = pr.waitQuiescent(6500*time.Millisecond, 12*time.Second, 150*time.Second)
		rep.Extra["verdict_after_driver_resume"] = verdict
	}
	rep.event("pauses", int(pauseCalled.Load()))
	rep.event("resumes", int(resumeCalled.Load()))
	rep.event("pause_acks", pr.count("pause.ack"))
	w := map[string]any{"scenario": sc, "verdict": verdict, "pause_called": pauseCalled.Load(), "pause_returned": pauseReturned.Load(), "resume_called": resumeCalled.Load(), "resume_returned": resumeReturned.Load(), "tracked": pr.tracked.Load(), "acks": pr.count("pause.ack"), "resumed": pr.count("pause.resumed")}
	if verdict == "stuck" || verdict == "quiescent" {
		if resumeCalled.Load() > resumeReturned.Load() {
			w["parked"] = stuckFrames(goroutineDump())
			rep.violation("pipeline/resume-never-returns", fmt.Sprintf("Resume() was called %d time(s) and returned %d time(s); the pipeline is quiet (%s) with %d seed(s) still tracked (pause at %s #%d, resume after %d acknowledgements, %d workers per stage)", resumeCalled.Load(), resumeReturned.Load(), verdict, pr.tracked.Load(), sc.PausePt, sc.PauseOcc, sc.ResumeAck, sc.Cfg.Workers), w)
		} else if pauseCalled.Load() > pauseReturned.Load() {
			w["parked"] = stuckFrames(goroutineDump())
			rep.violation("pipeline/pause-never-returns", fmt.Sprintf("Pause() was called %d time(s) and returned %d time(s); the pipeline is quiet (%s)", pauseCalled.Load(), pauseReturned.Load(), verdict), w)
		} else if verdict == "stuck" && resumeCalled.Load() == pauseCalled.Load() {
			w["parked"] = stuckFrames(goroutineDump())
			rep.violation("pipeline/not-all-workers-woken", fmt.Sprintf("every Pause() was followed by a Resume() that returned, yet the pipeline went quiet with %d seed(s) still tracked: some worker was not woken (acks %d, resumed %d)", pr.tracked.Load(), pr.count("pause.ack"), pr.count("pause.resumed")), w)
		}
	} else {
		rep.inconclusive("no-quiescence:" + verdict)
	}
	if pr.count("pause.ack") > 0 {
		rep.distinct(fmt.Sprintf("%s#%d/resume-after-%d/w%d/cycles%d", sc.PausePt, sc.PauseOcc, sc.ResumeAck, sc.Cfg.Workers, sc.Cycles))
	}
	rep.write(dir)
	done := make(chan struct{})
	go func() { pr.stop(); close(done) }()
	select {
	case <-done:
	case <-time.After(40 * time.Second):
	}
	return 0
}

func vc14Seed(seed int64, idx int) int64 { return seed*1000003 + int64(idx)*7919 + 14 }

func c14PipeScenarios(seed int64, n int) []c14PipeScenario {
	var out []c14PipeScenario
	points := []struct {
		pt  string
		occ int
	}{{"post.recv", 1}, {"post.recv", 1}, {"arch.do", 2}, {"post.recv", 1}, {"pre.forward", 3}, {"arch.resp", 4}, {"post.recv", 2}}
	for i := 0; i < n; i++ {
		p := points[i%len(points)]
		w := []int{1, 1, 2, 1, 4}[i%5]
		out = append(out, c14PipeScenario{Seed: seed, Index: i, PausePt: p.pt, PauseOcc: p.occ, ResumeAck: 1 + i%3, Cycles: 1 + (i/7)%2, NSeeds: 12 + i%6,
			Cfg: pipeConfig{Workers: w, MaxConcurrentAssets: 2, MaxHops: 1, MaxRetry: 0, MaxRedirect: 3, WARCPoolSize: 1}})
	}
	return out
}

// c14Pipe runs the pipeline-level scenarios and merges them into the C14 run.
func c14Pipe(r interface {
	Violation(sig, what string, witness any)
	Inconclusive(why string)
	Note(format string, a ...any)
}, m *merged, scratch string, seed int64, n int, shapes interface{ Add(string) }) {
	scs := c14PipeScenarios(seed, n)
	parallel(len(scs), 10, func(i int) {
		dir := filepath.Join(scratch, fmt.Sprintf("c14p-%d", i))
		res := runChild(os.Getenv("VZ_BIN"), "pipe-c14", scs[i], dir, 8*time.Minute)
		rep := absorb(r, m, res, fmt.Sprintf("pipeline%d[pause at %s #%d, resume after %d acks, workers=%d]", i, scs[i].PausePt, scs[i].PauseOcc, scs[i].ResumeAck, scs[i].Cfg.Workers), scs[i], true)
		if rep != nil {
			for k := range rep.Distinct {
				shapes.Add("pipeline/" + k)
			}
		}
		os.RemoveAll(dir)
	})
}
