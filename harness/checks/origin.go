package checks

import (
	"bytes"
	"compress/gzip"
	"crypto/sha1"
	"encoding/hex"
	"fmt"
	"net"
	"net/http"
	"strings"
	"sync"
	"sync/atomic"
	"time"
)

// Scripted origin server. It listens on 0.0.0.0:<port>; every 127.x.y.z address reaches it, so
// "hosts" are distinct loopback IP literals (the warc library skips DNS for IP literals and Zeno's
// normaliser only rejects the literal 127.0.0.1).

type route struct {
	Status      int               `json:"status"`
	Headers     map[string]string `json:"headers,omitempty"`
	Body        []byte            `json:"body,omitempty"`
	Chunked     bool              `json:"chunked,omitempty"`
	Gzip        bool              `json:"gzip,omitempty"` // Content-Encoding: gzip (entity = compressed bytes)
	DelayMs     int               `json:"delay_ms,omitempty"`
	FailFirst   int               `json:"fail_first,omitempty"`  // the first k requests get FailStatus (or a reset if FailStatus==0)
	FailStatus  int               `json:"fail_status,omitempty"` // status used while failing
	FailBody    []byte            `json:"fail_body,omitempty"`   // entity sent while failing (default: a short text)
	AlwaysReset bool              `json:"always_reset,omitempty"`
	TruncateAt  int               `json:"truncate_at,omitempty"` // announce the full Content-Length, send only this many bytes, then drop the connection
	Tag         string            `json:"tag,omitempty"`         // free-form label used by oracles (depth label, chain position, scope class...)
	// Expect lists absolute URLs that are part of the tree of whoever receives this (non-failing)
	// response in full: the in-scope requisites planted in the body, or the redirect target.
	Expect []string `json:"expect,omitempty"`
}

type originLog struct {
	ID         int64    `json:"id"`
	StartSeq   int64    `json:"start_seq"`
	EndSeq     int64    `json:"end_seq"`
	Host       string   `json:"host"`
	URI        string   `json:"uri"`
	URL        string   `json:"url"` // http://host/uri
	Status     int      `json:"status"`
	SHA1       string   `json:"sha1"` // hex sha1 of the entity bytes sent
	Len        int      `json:"len"`
	Completed  bool     `json:"completed"`
	Reset      bool     `json:"reset,omitempty"`
	Tag        string   `json:"tag,omitempty"`
	UnknownURI bool     `json:"unknown,omitempty"`
	WallMs     int64    `json:"wall_ms"`
	Expect     []string `json:"expect,omitempty"` // set when the route's real (non-failing) response was sent completely
	StartUs    int64    `json:"start_us"`         // arrival time (µs since the origin started); data for rate monitors, never a deadline
}

type origin struct {
	ln     net.Listener
	srv    *http.Server
	Port   int
	seq    func() int64 // global sequence source (shared with the hook event log)
	mu     sync.Mutex
	routes map[string]*route // key: host + uri
	hits   map[string]int
	log    []*originLog
	nextID atomic.Int64
	open   atomic.Int64
	start  time.Time
	// fallback for unknown URIs (nil = 404)
	Fallback func(host, uri string) *route
}

func newOrigin(seq func() int64) (*origin, error) {
	ln, err := net.Listen("tcp4", "0.0.0.0:0")
	if err != nil {
		return nil, err
	}
	o := &origin{ln: ln, Port: ln.Addr().(*net.TCPAddr).Port, seq: seq, routes: map[string]*route{}, hits: map[string]int{}, start: time.Now()}
	o.srv = &http.Server{Handler: http.HandlerFunc(o.handle)}
	go o.srv.Serve(ln)
	return o, nil
}

func (o *origin) close() { o.srv.Close() }

// set installs a route for the absolute URL http://host:port/uri.
func (o *origin) set(hostport, uri string, r *route) {
	o.mu.Lock()
	o.routes[hostport+uri] = r
	o.mu.Unlock()
}

func (o *origin) openRequests() int64 { return o.open.Load() }

func (o *origin) snapshot() []originLog {
	o.mu.Lock()
	defer o.mu.Unlock()
	out := make([]originLog, len(o.log))
	for i, l := range o.log {
		out[i] = *l
	}
	return out
}

func gzipBytes(b []byte) []byte {
	var buf bytes.Buffer
	w := gzip.NewWriter(&buf)
	w.Write(b)
	w.Close()
	return buf.Bytes()
}

func sha1hex(b []byte) string {
	h := sha1.Sum(b)
	return hex.EncodeToString(h[:])
}

func (o *origin) handle(w http.ResponseWriter, req *http.Request) {
	o.open.Add(1)
	defer o.open.Add(-1)
	uri := req.URL.RequestURI()
	key := req.Host + uri
	o.mu.Lock()
	r, ok := o.routes[key]
	o.hits[key]++
	hit := o.hits[key]
	entry := &originLog{ID: o.nextID.Add(1), StartSeq: o.seq(), Host: req.Host, URI: uri, URL: "http://" + req.Host + uri, StartUs: time.Since(o.start).Microseconds()}
	o.log = append(o.log, entry)
	o.mu.Unlock()
	finish := func(status int, ent []byte, completed, reset bool) {
		o.mu.Lock()
		entry.Status, entry.SHA1, entry.Len, entry.Completed, entry.Reset = status, sha1hex(ent), len(ent), completed, reset
		entry.EndSeq = o.seq()
		entry.WallMs = time.Since(o.start).Milliseconds()
		o.mu.Unlock()
	}
	if !ok && o.Fallback != nil {
		r = o.Fallback(req.Host, uri)
		ok = r != nil
	}
	if !ok {
		o.mu.Lock()
		entry.UnknownURI = true
		o.mu.Unlock()
		body := []byte("not found\n")
		w.Header().Set("Content-Type", "text/plain")
		w.Header().Set("Content-Length", fmt.Sprint(len(body)))
		w.WriteHeader(404)
		w.Write(body)
		finish(404, body, true, false)
		return
	}
	o.mu.Lock()
	entry.Tag = r.Tag
	o.mu.Unlock()
	if r.DelayMs > 0 {
		time.Sleep(time.Duration(r.DelayMs) * time.Millisecond)
	}
	reset := func() {
		if hj, ok := w.(http.Hijacker); ok {
			c, _, err := hj.Hijack()
			if err == nil {
				if tc, ok := c.(*net.TCPConn); ok {
					tc.SetLinger(0)
				}
				c.Close()
			}
		}
		finish(0, nil, false, true)
	}
	if r.AlwaysReset {
		reset()
		return
	}
	status, body := r.Status, r.Body
	hdr := r.Headers
	if hit <= r.FailFirst {
		if r.FailStatus == 0 {
			reset()
			return
		}
		status, body, hdr = r.FailStatus, []byte(fmt.Sprintf("temporary failure %d\n", hit)), map[string]string{"Content-Type": "text/plain"}
		if r.FailBody != nil {
			body, hdr = r.FailBody, map[string]string{"Content-Type": "application/octet-stream"}
		}
	}
	ent := body
	for k, v := range hdr {
		w.Header().Set(k, v)
	}
	if r.Gzip && hit > r.FailFirst {
		ent = gzipBytes(body)
		w.Header().Set("Content-Encoding", "gzip")
	}
	noBody := status == 204 || status == 304 || (status >= 100 && status < 200)
	if noBody {
		ent = nil
	}
	if r.TruncateAt > 0 && len(ent) > r.TruncateAt && !noBody {
		w.Header().Set("Content-Length", fmt.Sprint(len(ent)))
		w.WriteHeader(status)
		w.Write(ent[:r.TruncateAt])
		if fl, ok := w.(http.Flusher); ok {
			fl.Flush()
		}
		finish(status, ent[:r.TruncateAt], false, true)
		panic(http.ErrAbortHandler) // the server drops the connection in the middle of the body
	}
	if !r.Chunked || noBody {
		w.Header().Set("Content-Length", fmt.Sprint(len(ent)))
		w.WriteHeader(status)
		if len(ent) > 0 {
			w.Write(ent)
		}
	} else {
		w.WriteHeader(status)
		fl, _ := w.(http.Flusher)
		for i := 0; i < len(ent); {
			n := 1 + (i*7+len(ent))%4096
			if i+n > len(ent) {
				n = len(ent) - i
			}
			w.Write(ent[i : i+n])
			if fl != nil {
				fl.Flush()
			}
			i += n
		}
	}
	finish(status, ent, true, false)
	if hit > r.FailFirst && len(r.Expect) > 0 {
		o.mu.Lock()
		entry.Expect = r.Expect
		o.mu.Unlock()
	}
}

func hostOf(k, n, port int) string { return fmt.Sprintf("127.0.%d.%d:%d", k, n, port) }

var _ = strings.Contains
