package checks

import (
	"fmt"
	"os"
	"path/filepath"
	"strings"
	"time"

	"github.com/internetarchive/Zeno/internal/pkg/config"
	"github.com/internetarchive/Zeno/internal/verif/vc"
)

// C03 — graceful stop always terminates and finalises the WARC output.
// Configuration matrix x stop moments placed by triggers on pipeline events; the parent judges the
// exit (status, stderr), the stuck report of the child, and the files left behind.

func init() {
	register("C03", c03)
	registerChild("pipe-c03", c03Child)
}

type c03Scenario struct {
	Seed     int64      `json:"seed"`
	Index    int        `json:"index"`
	Cfg      pipeConfig `json:"cfg"`
	UseProxy bool       `json:"use_proxy"`
	Moment   string     `json:"moment"`
	K        int        `json:"k"`
	Mode     string     `json:"mode"` // api | sigterm
	NSeeds   int        `json:"n_seeds"`
}

func c03Triggers(moment string, k int, action string) []trigger {
	switch moment {
	case "mid-fetch":
		return []trigger{{"arch.do", k, action}}
	case "pre-forward":
		return []trigger{{"pre.forward", k, action}}
	case "post-recv":
		return []trigger{{"post.recv", k, action}}
	case "at-notify":
		return []trigger{{"fin.notify", k, action}}
	case "feedback-wait":
		return []trigger{{"arch.feedback.wait", k, action}}
	case "paused-some":
		return []trigger{{"arch.do", 2, "pause"}, {"pause.ack", 1, action}}
	case "paused-all":
		return []trigger{{"arch.do", 2, "pause"}, {"pause.ack", k, action}}
	case "paused-then-resumed":
		return []trigger{{"arch.do", 2, "pause"}, {"pause.ack", 2, "resume"}, {"pause.resumed", 1, action}}
	case "paused-mid-postprocess":
		// the first document post-processed is the hub (more outlinks than the stage channel buffers):
		// the pause lands while a postprocessor worker is handing its outlinks to the finisher
		return []trigger{{"post.recv", 1, "pause"}, {"pause.ack", 1 + k%3, action}}
	}
	return nil // after-start, after-drain: handled by the driver
}

func c03Child(scPath string) int {
	var sc c03Scenario
	if err := readJSON(scPath, &sc); err != nil {
		return 2
	}
	dir := os.Getenv("VZ_CHILD_DIR")
	rep := newReport()
	pr := newPipeRun(dir, sc.Cfg)
	org, err := newOrigin(pr.nextSeq)
	if err != nil {
		return 2
	}
	pr.org = org
	if sc.UseProxy {
		px, err := newSocks5()
		if err != nil {
			return 2
		}
		pr.Cfg.Proxy = fmt.Sprintf("socks5://127.0.0.1:%d", px.Port)
	}
	site := &genSite{o: org, port: org.Port, rng: pipeRand(sc.Seed, "c03site", sc.Index)}
	site.build(sc.NSeeds, 1)
	// slow some responses so that a stop lands in the middle of fetches
	drng := pipeRand(sc.Seed, "c03delay", sc.Index)
	org.mu.Lock()
	for _, rt := range org.routes {
		if drng.Intn(3) == 0 {
			rt.DelayMs = 100 + drng.Intn(700)
		}
	}
	org.mu.Unlock()
	inputSeeds := site.Hubs
	if sc.Cfg.UseHQ {
		// crawl-HQ source: the HQ double hands out the generated seeds, there are no input seeds
		hq, err := newFakeHQ(pr.nextSeq, func() { pr.lastActivity.Store(pr.nextSeq()) }, nil, 1)
		if err != nil {
			return 2
		}
		pr.Cfg.HQAddress = fmt.Sprintf("http://127.0.0.1:%d", hq.Port)
		pr.Cfg.HQBatchSize = 4
		for _, s := range site.Seeds {
			hq.addSeed(s.URL, "", "")
		}
		inputSeeds = nil
	}
	if err := pr.applyConfig(inputSeeds); err != nil {
		return 2
	}
	pr.perturb, pr.perturbSeed = 1, vc.DeriveSeed(sc.Seed, "C03", "perturb", sc.Index)
	action := "stop"
	if sc.Mode == "sigterm" {
		action = "sigterm"
	}
	pr.triggers = c03Triggers(sc.Moment, sc.K, action)
	pr.installHooks(false)
	// stuck monitor: once a stop has been requested, the process must keep moving until it is gone
	stopRequested := make(chan struct{}, 1)
	pr.eventHooks = append(pr.eventHooks, func(e pipeEvent) {})
	go func() {
		<-stopRequested
		time.Sleep(20 * time.Second) // origin delays <= 0.8 s, retries <= 1: far more than any legitimate wait
		for {
			a := [2]int64{pr.seq.Load(), org.openRequests()}
			time.Sleep(700 * time.Millisecond)
			b := [2]int64{pr.seq.Load(), org.openRequests()}
			time.Sleep(700 * time.Millisecond)
			c := [2]int64{pr.seq.Load(), org.openRequests()}
			if a == b && b == c && a[1] == 0 {
				dump := goroutineDump()
				frames := stuckFrames(dump)
				os.WriteFile(filepath.Join(dir, "stuck-dump.txt"), []byte(dump), 0o644)
				writeJSON(filepath.Join(dir, "stuck.json"), map[string]any{"frames": frames, "fired": pr.actionsFired})
				os.Exit(4)
			}
		}
	}()
	go func() {
		// the trigger may fire from any goroutine: poll the action list
		for {
			time.Sleep(20 * time.Millisecond)
			pr.evMu.Lock()
			n := 0
			for _, a := range pr.actionsFired {
				if strings.HasPrefix(a, "stop@") || strings.HasPrefix(a, "sigterm@") {
					n++
				}
			}
			pr.evMu.Unlock()
			if n > 0 || pr.stopCalled.Load() != 0 {
				stopRequested <- struct{}{}
				return
			}
		}
	}()
	pr.start(sc.Mode == "sigterm")
	doStop := func() {
		if sc.Mode == "sigterm" {
			pr.fire(trigger{Point: "driver", Occurrence: 0, Action: "sigterm"})
		} else {
			pr.evMu.Lock()
			pr.actionsFired = append(pr.actionsFired, "stop@driver")
			pr.evMu.Unlock()
			pr.stop()
		}
	}
	switch sc.Moment {
	case "after-start":
		doStop()
	case "after-drain":
		pr.waitQuiescent(6500*time.Millisecond, 12*time.Second, 120*time.Second)
		doStop()
	default:
		// wait for the trigger; if the run drains without reaching it, stop at quiescence (recorded as such)
		v := pr.waitQuiescent(6500*time.Millisecond, 12*time.Second, 120*time.Second)
		if v != "stopped" && pr.stopCalled.Load() == 0 {
			rep.Extra["trigger_not_reached"] = true
			doStop()
		}
	}
	// wait for Stop to return (API mode) or for WatchSignals to exit the process (SIGTERM mode);
	// the stuck monitor or the parent's watchdog end the process otherwise
	for pr.stopReturned.Load() == 0 {
		time.Sleep(20 * time.Millisecond)
	}
	rep.Evaluations = 1
	rep.Extra["fired"] = pr.actionsFired
	rep.Extra["events_before_stop"] = pr.stopCalled.Load()
	rep.event("hook_events", int(pr.seq.Load()))
	rep.write(dir)
	_ = config.Get()
	return 0
}

type c03Job struct {
	sc   c03Scenario
	race bool
}

func c03Jobs(r *vc.Run) []c03Job {
	moments := []string{"after-start", "mid-fetch", "pre-forward", "post-recv", "feedback-wait", "at-notify", "paused-some", "paused-all", "paused-then-resumed", "paused-mid-postprocess", "after-drain"}
	var jobs []c03Job
	n := r.N(60, 512)
	for i := 0; i < n; i++ {
		rng := r.Rand("job", i)
		// configuration point: direct/proxy x sync/async x limiter x workers x pool x seencheck (all 64 points appear in thorough; quick samples pairwise)
		bits := i
		if !r.Thorough() {
			bits = rng.Intn(64)
		}
		cfg := pipeConfig{
			Workers:             []int{1, 4}[bits&1],
			WARCPoolSize:        []int{1, 3}[(bits>>1)&1],
			DisableSeencheck:    (bits>>2)&1 == 1,
			RateLimit:           (bits>>3)&1 == 1,
			WARCWriteAsync:      (bits>>4)&1 == 1,
			MaxConcurrentAssets: 1 + rng.Intn(4),
			MaxHops:             1,
			MaxRetry:            rng.Intn(2),
			MaxRedirect:         5,
		}
		sc := c03Scenario{Seed: r.Seed, Index: i, Cfg: cfg, UseProxy: (bits>>5)&1 == 1, Moment: moments[(i/1)%len(moments)], K: 1 + rng.Intn(6), Mode: []string{"api", "sigterm"}[rng.Intn(2)], NSeeds: 10 + rng.Intn(8)}
		if i%7 == 6 { // crawl-HQ source on a diagonal of the matrix
			sc.Cfg.UseHQ = true
			sc.UseProxy = false
		}
		if sc.Moment == "paused-all" {
			sc.K = 4 * cfg.Workers // every worker of the four stages has acknowledged
		}
		jobs = append(jobs, c03Job{sc: sc, race: r.Thorough() && i%4 == 3})
	}
	return jobs
}

func c03(r *vc.Run) int {
	jobs := c03Jobs(r)
	m := newMerged()
	combos := vc.NewDistinct()
	reached := vc.NewDistinct()
	parallel(len(jobs), 14, func(i int) {
		j := jobs[i]
		bin := os.Getenv("VZ_BIN")
		if j.race && os.Getenv("VZ_BIN_RACE") != "" {
			bin = os.Getenv("VZ_BIN_RACE")
		}
		dir := filepath.Join(r.Scratch, fmt.Sprintf("c03-%d", i))
		label := fmt.Sprintf("run%d[%s/%s/k%d hq=%v proxy=%v async=%v limiter=%v workers=%d pool=%d noseencheck=%v]", i, j.sc.Moment, j.sc.Mode, j.sc.K, j.sc.Cfg.UseHQ, j.sc.UseProxy, j.sc.Cfg.WARCWriteAsync, j.sc.Cfg.RateLimit, j.sc.Cfg.Workers, j.sc.Cfg.WARCPoolSize, j.sc.Cfg.DisableSeencheck)
		res := runChild(bin, "pipe-c03", j.sc, dir, 150*time.Second)
		m.mu.Lock()
		m.Children++
		m.Evaluations++
		m.addRaces(res.Stderr)
		m.mu.Unlock()
		// a -race child exits 66 when the detector printed a report; the report is a diagnostic
		// (counted above, shown in the notes), it is not the exit status the property speaks about
		raceOnlyExit := j.race && res.Exit == 66 && len(raceSigs(res.Stderr)) > 0
		cfgClass := fmt.Sprintf("proxy=%v/async=%v", j.sc.UseProxy, j.sc.Cfg.WARCWriteAsync)
		if j.sc.Cfg.UseHQ {
			cfgClass += "/hq"
		}
		combos.Add(fmt.Sprintf("%s/%s/%s", j.sc.Moment, j.sc.Mode, cfgClass))
		var stuck struct {
			Frames []string `json:"frames"`
			Fired  []string `json:"fired"`
		}
		switch {
		case readJSON(filepath.Join(dir, "stuck.json"), &stuck) == nil:
			where := "unknown"
			for _, f := range stuck.Frames {
				if strings.Contains(f, ".Stop ") || strings.Contains(f, "stopPipeline") {
					where = strings.Fields(f)[0]
					break
				}
			}
			r.Violation("stop-never-returns/"+j.sc.Moment+"@"+where, label+": the stop request never returned and the process is quiescent (no hook event, no open origin request over three samples); parked frames: "+strings.Join(stuck.Frames, " | "),
				map[string]any{"scenario": j.sc, "frames": stuck.Frames, "fired": stuck.Fired})
		case res.TimedOut:
			r.Inconclusive("watchdog-while-still-moving")
			r.Note("%s: parent watchdog fired; stderr tail: %s", label, tail(res.Stderr, 600))
		default:
			if crashed, excerpt := res.Crashed(); crashed {
				r.Violation("crash/"+crashSig(res.Stderr), label+": crashed: "+truncate(excerpt, 800), map[string]any{"scenario": j.sc, "stderr_tail": tail(res.Stderr, 5000)})
			} else if res.Exit != 0 && !raceOnlyExit {
				r.Violation(fmt.Sprintf("exit-status-%d", res.Exit), label+": exit status "+fmt.Sprint(res.Exit)+" "+res.Signal+": "+tail(res.Stderr, 600), map[string]any{"scenario": j.sc})
			}
		}
		if !res.TimedOut && (res.Exit == 0 || raceOnlyExit) {
			var rep childReport
			if readJSON(filepath.Join(dir, "report.json"), &rep) == nil && rep.Extra["trigger_not_reached"] == nil || j.sc.Mode == "sigterm" {
				reached.Add(fmt.Sprintf("%s/%s/%s", j.sc.Moment, j.sc.Mode, cfgClass))
			}
			// files left behind
			warcDir := filepath.Join(dir, "jobs", "j", "warcs")
			if j.sc.Cfg.UseHQ {
				warcDir = filepath.Join(dir, "jobs", "j", "warcs")
			}
			open, _ := filepath.Glob(filepath.Join(warcDir, "*.open"))
			if len(open) > 0 {
				r.Violation("open-warc-left-after-stop", fmt.Sprintf("%s: %d WARC file(s) still carry the .open suffix after the stop returned: %v", label, len(open), baseNames(open)), map[string]any{"scenario": j.sc})
			}
			ix := newWarcIndex()
			ix.scan(warcDir)
			for _, p := range ix.Problems {
				r.Violation("incomplete-record-after-stop", fmt.Sprintf("%s: %s @%d: %s", label, p.File, p.Offset, p.What), map[string]any{"scenario": j.sc})
			}
			for f, off := range ix.TrailingPartial {
				r.Violation("incomplete-record-after-stop", fmt.Sprintf("%s: %s has an incomplete member at offset %d", label, f, off), map[string]any{"scenario": j.sc})
			}
			m.mu.Lock()
			m.Events["warc_records_after_stop"] += len(ix.Records)
			m.Events["warc_files_after_stop"] += len(ix.offsets)
			m.mu.Unlock()
		}
		os.RemoveAll(dir)
	})
	for s, n := range m.Races {
		r.Note("race report x%d: %s", n, s)
	}
	cov := map[string]any{
		"evaluations":         m.Evaluations,
		"distinct_nontrivial": combos.Len(),
		"rule":                "one evaluation = one full-pipeline run stopped at a moment chosen by a trigger on a pipeline event (after start, k-th fetch in flight, between stages, waiting for the WARC writer, at a finish notification, some/all workers paused, paused then resumed, after drain), by API call or by a real SIGTERM through WatchSignals, under a configuration from {direct, SOCKS5 proxy} x {sync, async WARC} x limiter x workers{1,4} x pool{1,3} x seencheck; distinct = distinct (moment, mode, proxy, async) combinations run",
		"samples":             []any{jobs[0].sc, jobs[len(jobs)/2].sc},
		"events":              m.Events,
		"combinations":        combos.Counts(),
		"moment_reached":      reached.Len(),
	}
	return r.Finish("fault_enumeration", cov, []string{
		"'bounded time' is logical: origin delays <= 0.8 s and at most one retry, so 20 s after the stop request the only legitimate waits are gone; a process that shows no hook event and no open origin request over three samples is stuck (violation), one that still moves at the 150 s watchdog is inconclusive",
		"crawl-HQ source (against the HQ double) on every seventh run of the matrix",
	}, 12)
}

func baseNames(p []string) []string {
	var l []string
	for _, s := range p {
		l = append(l, filepath.Base(s))
	}
	return l
}
