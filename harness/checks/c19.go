package checks

import (
	"encoding/hex"
	"fmt"
	"math/rand"
	"net/http"
	"net/url"
	"os"
	"path/filepath"
	"sort"
	"strings"
	"time"

	"github.com/internetarchive/Zeno/internal/pkg/config"
	"github.com/internetarchive/Zeno/internal/verif/vc"
	"github.com/internetarchive/Zeno/pkg/models"
)

// C19 — structured documents yield all their links; bucket listings are fully walked.
// Real preprocessor + postprocessor stages; fabricated fetches; planted URLs carry unique tokens.

func init() {
	register("C19", c19)
	registerChild("c19", c19Child)
}

type c19Scenario struct {
	Seed    int64 `json:"seed"`
	Index   int   `json:"index"`
	Docs    int   `json:"docs"`
	Buckets int   `json:"buckets"`
	MaxHops int   `json:"max_hops"`
}

func leafResp() *fakeResp {
	return &fakeResp{Status: 200, Header: http.Header{"Content-Type": {"application/octet-stream"}}, Body: []byte{0, 1, 2, 3, 0xff, 0xfe, 0, 0}}
}

func c19Child(scPath string) int {
	var sc c19Scenario
	if err := readJSON(scPath, &sc); err != nil {
		return 2
	}
	dir := os.Getenv("VZ_CHILD_DIR")
	rep := newReport()
	defer rep.write(dir)
	zenoConfig(dir, false, func(c *config.Config) {
		c.WorkersCount = 1 + sc.Index%2
		c.MaxHops = sc.MaxHops
	})
	h, err := startStages(true)
	if err != nil {
		rep.violation("harness/start", err.Error(), nil)
		return 0
	}
	for i := 0; i < sc.Docs; i++ {
		c19Doc(rep, h, sc, i)
	}
	for i := 0; i < sc.Buckets; i++ {
		c19Bucket(rep, h, sc, i)
	}
	if left := h.tempFiles(); len(left) > 0 {
		rep.Extra["temp_files_left"] = len(left)
	}
	return 0
}

func c19Doc(rep *childReport, h *stageHarness, sc c19Scenario, i int) {
	rng := rand.New(rand.NewSource(vc.DeriveSeed(sc.Seed, "C19", "doc", sc.Index, i)))
	tg := &tokGen{prefix: fmt.Sprintf("t%dd%d", sc.Index, i)}
	seedHops := 0
	if sc.MaxHops > 0 && rng.Intn(3) == 0 {
		seedHops = rng.Intn(sc.MaxHops + 1) // sometimes at the hop limit: no outlinks expected
	}
	var body []byte
	var ps []planted
	var uris []plantedURI
	var ctype, kind, docURL string
	switch rng.Intn(3) {
	case 0:
		body, ps = genJSONDoc(rng, tg, 2+rng.Intn(7))
		kind, ctype = "json", pick(rng, []string{"application/json", "application/json; charset=utf-8", "application/vnd.api+json"})
		docURL = fmt.Sprintf("https://api.docs.example/v%d/doc%d", sc.Index, i)
	case 1:
		body, ps, kind = genXMLDoc(rng, tg)
		ctype = pick(rng, []string{"application/xml", "text/xml; charset=utf-8", "application/rss+xml", "application/atom+xml"})
		kind = "xml-" + kind
		docURL = fmt.Sprintf("https://feeds.docs.example/f%d/doc%d", sc.Index, i)
	default:
		body, uris, kind = genM3U8(rng, tg)
		ctype = pick(rng, []string{"application/vnd.apple.mpegurl", "application/x-mpegURL", "Application/X-MpegURL"})
		kind = "m3u8-" + kind
		docURL = fmt.Sprintf("https://video.docs.example/hls%d/d%d/list", sc.Index, i)
	}
	seed, err := newSeed(fmt.Sprintf("d%d", i), docURL, "", seedHops)
	if err != nil {
		rep.violation("harness/seed", err.Error(), nil)
		return
	}
	cr := h.crawl(seed, func(it *models.Item, wire string) *fakeResp {
		if it.GetDepth() == 0 {
			return &fakeResp{Status: 200, Header: http.Header{"Content-Type": {ctype}}, Body: body}
		}
		return leafResp()
	}, 8)
	rep.Evaluations++
	if cr.Err != "" || !cr.Finished {
		rep.violation("harness/crawl", fmt.Sprintf("crawl error %q finished=%v", cr.Err, cr.Finished), map[string]any{"doc": string(body)})
		return
	}
	reqs := map[string]bool{}
	for _, rq := range cr.Requests {
		reqs[rq.URL] = true
	}
	findReq := func(tok string) string {
		for u := range reqs {
			if strings.Contains(u, tok) {
				return u
			}
		}
		return ""
	}
	findOut := func(tok string) *models.Item {
		for _, o := range cr.Outlinks {
			if strings.Contains(o.GetURL().Raw, tok) {
				return o
			}
		}
		return nil
	}
	hopsAllow := seedHops < sc.MaxHops
	witness := func() map[string]any {
		w := map[string]any{"kind": kind, "content_type": ctype, "doc_url": docURL, "seed_hops": seedHops, "max_hops": sc.MaxHops, "body": string(body)}
		rq := []string{}
		for u := range reqs {
			rq = append(rq, u)
		}
		sort.Strings(rq)
		w["requests"] = rq
		ol := []string{}
		for _, o := range cr.Outlinks {
			ol = append(ol, o.GetURL().Raw)
		}
		w["outlinks"] = ol
		return w
	}
	for _, p := range ps {
		rep.event("planted/"+strings.SplitN(kind, "-", 2)[0], 1)
		asChild := findReq(p.Token)
		asOut := findOut(p.Token)
		sitemap := strings.HasPrefix(kind, "xml-sitemap")
		class := "page"
		if p.HasExt {
			class = "file"
		}
		if u, _ := url.Parse(p.URL); u != nil && (u.Path == "" || u.Path == "/") {
			class = "bare-host"
		}
		rep.distinct(kind + "/" + class + "/" + lastSeg(p.Where))
		switch {
		case sitemap:
			// every URL of a sitemap is discovered (as outlink) when the hop limit allows
			if hopsAllow && asOut == nil && asChild == "" {
				rep.violation("missed/"+kind+"/"+class, fmt.Sprintf("planted %s (%s) in a %s document is neither fetched nor queued", p.URL, p.Where, kind), witness())
			}
		case p.HasExt:
			if asChild == "" {
				rep.violation("missed-asset/"+kind+"/"+class, fmt.Sprintf("planted %s (%s, file extension) was not fetched as an asset (queued as outlink: %v)", p.URL, p.Where, asOut != nil), witness())
			}
		default:
			if hopsAllow && asOut == nil {
				rep.violation("missed-outlink/"+kind+"/"+class, fmt.Sprintf("planted %s (%s, no file extension) was not queued as an outlink (fetched as asset: %v)", p.URL, p.Where, asChild != ""), witness())
			}
			if asOut != nil {
				if asOut.GetURL().GetHops() != seedHops+1 {
					rep.violation("outlink-hops/"+kind, fmt.Sprintf("outlink %s has hops %d, page has %d", p.URL, asOut.GetURL().GetHops(), seedHops), witness())
				}
				if !hopsAllow {
					rep.violation("outlink-beyond-hop-limit/"+kind, fmt.Sprintf("outlink %s queued from a page at hops %d with max-hops %d", p.URL, seedHops, sc.MaxHops), witness())
				}
			}
		}
	}
	for _, u := range uris {
		rep.event("planted/m3u8", 1)
		rep.distinct(kind + "/" + u.Kind + "/" + refForm(u.Ref))
		want := resolveRef(docURL, u.Ref)
		if !reqs[want] {
			got := findReq(u.Token)
			sig := "missed-playlist-uri/" + u.Kind
			what := fmt.Sprintf("%s URI %q of a %s playlist was never requested (expected %s)", u.Kind, u.Ref, kind, want)
			if got != "" {
				sig = "misresolved-playlist-uri/" + u.Kind
				what = fmt.Sprintf("%s URI %q requested as %s, expected %s", u.Kind, u.Ref, got, want)
			}
			rep.violation(sig, what, witness())
		}
	}
	if i%400 == 3 {
		rep.sample(map[string]any{"kind": kind, "content_type": ctype, "planted": len(ps) + len(uris), "body": truncate(string(body), 600)}, 3)
	}
}

func lastSeg(s string) string {
	if i := strings.LastIndexByte(s, '/'); i >= 0 {
		return s[i+1:]
	}
	return s
}

func refForm(ref string) string {
	switch {
	case strings.HasPrefix(ref, "http"):
		return "absolute"
	case strings.HasPrefix(ref, "/"):
		return "path-absolute"
	case strings.Contains(ref, "/"):
		return "sub-path"
	}
	return "relative"
}

func truncate(s string, n int) string {
	if len(s) > n {
		return s[:n] + "..."
	}
	return s
}

// ---------------- simulated bucket ----------------

type s3Bucket struct {
	Host     string
	Keys     []string // sorted
	Size     map[string]int
	PageSize int
	Mode     string // marker | v2-flat | v2-delimiter
}

func (b *s3Bucket) list(q url.Values) (body string) {
	prefix := q.Get("prefix")
	delim := q.Get("delimiter")
	after := q.Get("marker")
	v2 := q.Get("list-type") == "2"
	if v2 {
		after = q.Get("start-after")
		if tok := q.Get("continuation-token"); tok != "" {
			if d, err := hex.DecodeString(tok); err == nil {
				after = string(d)
			}
		}
	}
	type entry struct {
		key    string
		prefix bool
	}
	var entries []entry
	seenP := map[string]bool{}
	for _, k := range b.Keys {
		if !strings.HasPrefix(k, prefix) {
			continue
		}
		if delim != "" {
			rest := k[len(prefix):]
			if i := strings.Index(rest, delim); i >= 0 {
				cp := prefix + rest[:i+len(delim)]
				if !seenP[cp] {
					seenP[cp] = true
					entries = append(entries, entry{cp, true})
				}
				continue
			}
		}
		entries = append(entries, entry{k, false})
	}
	sort.Slice(entries, func(i, j int) bool { return entries[i].key < entries[j].key })
	var page []entry
	truncated := false
	for _, e := range entries {
		if after != "" && e.key <= after {
			continue
		}
		if len(page) == b.PageSize {
			truncated = true
			break
		}
		page = append(page, e)
	}
	var sb strings.Builder
	sb.WriteString(`<?xml version="1.0" encoding="UTF-8"?>` + "\n" + `<ListBucketResult xmlns="http://s3.amazonaws.com/doc/2006-03-01/">`)
	fmt.Fprintf(&sb, "<Name>bucket</Name><Prefix>%s</Prefix><MaxKeys>%d</MaxKeys>", xmlEsc(prefix), b.PageSize)
	if !v2 {
		fmt.Fprintf(&sb, "<Marker>%s</Marker>", xmlEsc(q.Get("marker")))
	}
	fmt.Fprintf(&sb, "<IsTruncated>%v</IsTruncated>", truncated)
	for _, e := range page {
		if e.prefix {
			fmt.Fprintf(&sb, "<CommonPrefixes><Prefix>%s</Prefix></CommonPrefixes>", xmlEsc(e.key))
		} else {
			fmt.Fprintf(&sb, "<Contents><Key>%s</Key><LastModified>2024-01-01T00:00:00.000Z</LastModified><Size>%d</Size></Contents>", xmlEsc(e.key), b.Size[e.key])
		}
	}
	if v2 && truncated && len(page) > 0 {
		fmt.Fprintf(&sb, "<NextContinuationToken>%s</NextContinuationToken>", hex.EncodeToString([]byte(page[len(page)-1].key)))
	}
	sb.WriteString("</ListBucketResult>")
	return sb.String()
}

func c19Bucket(rep *childReport, h *stageHarness, sc c19Scenario, i int) {
	rng := rand.New(rand.NewSource(vc.DeriveSeed(sc.Seed, "C19", "bucket", sc.Index, i)))
	b := &s3Bucket{Host: fmt.Sprintf("bk%dx%d.s3.example", sc.Index, i), Size: map[string]int{}, PageSize: []int{1, 2, 7, 1000}[rng.Intn(4)], Mode: []string{"marker", "v2-flat", "v2-delimiter"}[rng.Intn(3)]}
	nKeys := 1 + rng.Intn(40)
	if rng.Intn(8) == 0 {
		nKeys = 100 + rng.Intn(300)
	}
	dirs := []string{"", "", "a/", "b/", "a/deep/", "b/x/y/", "c d/", "é/"}
	names := []string{"file", "img", "data", "r e", "q&a", "x+y", "100%", "ü"}
	set := map[string]bool{}
	for len(set) < nKeys {
		k := dirs[rng.Intn(len(dirs))] + fmt.Sprintf("%s-%d.%s", names[rng.Intn(len(names))], rng.Intn(100000), pick(rng, []string{"txt", "png", "bin"}))
		if b.Mode != "v2-delimiter" && rng.Intn(2) == 0 {
			k = strings.ReplaceAll(k, "/", "_")
		}
		set[k] = true
	}
	nonzero := map[string]bool{}
	for k := range set {
		b.Keys = append(b.Keys, k)
		b.Size[k] = 1 + rng.Intn(5000)
		if rng.Intn(6) == 0 {
			b.Size[k] = 0
		} else {
			nonzero[k] = true
		}
	}
	sort.Strings(b.Keys)
	start := "http://" + b.Host + "/"
	switch b.Mode {
	case "v2-flat":
		start += "?list-type=2"
	case "v2-delimiter":
		start += "?list-type=2&delimiter=%2F"
	}
	prefixes := map[string]bool{}
	if b.Mode == "v2-delimiter" {
		for _, k := range b.Keys {
			parts := strings.Split(k, "/")
			for j := 1; j < len(parts); j++ {
				prefixes[strings.Join(parts[:j], "/")+"/"] = true
			}
		}
	}
	pages := (len(b.Keys) + b.PageSize - 1) / b.PageSize
	bound := 2*(pages+len(prefixes)+1) + 2*len(prefixes)*((len(b.Keys)+b.PageSize-1)/b.PageSize)
	queue := []string{start}
	queued := map[string]bool{start: true} // the local queue has a UNIQUE index on the URL text
	emitted := map[string]bool{}
	listingRequests := 0
	var trail []string
	for len(queue) > 0 {
		u := queue[0]
		queue = queue[1:]
		if listingRequests > bound+50 {
			rep.violation("s3-walk-does-not-terminate/"+b.Mode, fmt.Sprintf("%d listing requests for a bucket of %d keys, page size %d, %d prefixes (bound %d)", listingRequests, len(b.Keys), b.PageSize, len(prefixes), bound),
				map[string]any{"mode": b.Mode, "page_size": b.PageSize, "keys": b.Keys, "trail": trail})
			return
		}
		seed, err := newSeed(fmt.Sprintf("b%d-%d", i, listingRequests), u, "", 0)
		if err != nil {
			rep.violation("s3-next-url-unparseable", fmt.Sprintf("listing link %q cannot be parsed as a seed: %v", u, err), nil)
			continue
		}
		cr := h.crawl(seed, func(it *models.Item, wire string) *fakeResp {
			if it.GetDepth() != 0 {
				return leafResp()
			}
			listingRequests++
			trail = append(trail, wire)
			pu, _ := url.Parse(wire)
			return &fakeResp{Status: 200, Header: http.Header{"Content-Type": {"application/xml"}, "Server": {"AmazonS3"}}, Body: []byte(b.list(pu.Query()))}
		}, 6)
		if cr.Err != "" {
			rep.violation("harness/crawl", cr.Err, nil)
			return
		}
		for _, o := range cr.Outlinks {
			raw := o.GetURL().Raw
			pu, err := url.Parse(raw)
			if err != nil || pu.Host != b.Host {
				continue // e.g. the xmlns URL found by aggressive extraction
			}
			if pu.Path == "" || pu.Path == "/" {
				if !queued[raw] {
					queued[raw] = true
					queue = append(queue, raw)
				}
				continue
			}
			emitted[strings.TrimPrefix(pu.Path, "/")] = true
		}
	}
	rep.Evaluations++
	rep.event("bucket_listing_requests", listingRequests)
	rep.event("bucket_keys", len(b.Keys))
	mixed := "flat"
	if len(prefixes) > 0 {
		mixed = "with-prefixes"
	}
	rep.distinct(fmt.Sprintf("bucket/%s/page%d/%s/keys%d", b.Mode, b.PageSize, mixed, len(b.Keys)/10))
	var missing []string
	for k := range nonzero {
		if !emitted[k] {
			missing = append(missing, k)
		}
	}
	sort.Strings(missing)
	if len(missing) > 0 {
		sig := "s3-object-never-queued/" + b.Mode
		rep.violation(sig, fmt.Sprintf("%d of %d non-empty objects were never emitted as object links when the listing links were followed to exhaustion (first: %q)", len(missing), len(nonzero), missing[0]),
			map[string]any{"mode": b.Mode, "page_size": b.PageSize, "keys": b.Keys, "sizes": b.Size, "missing": missing, "listing_requests": trail})
	}
	for k := range emitted {
		if b.Size[k] == 0 && set[k] {
			rep.violation("s3-empty-object-queued", fmt.Sprintf("zero-size object %q was queued", k), nil)
		}
	}
	if listingRequests > bound {
		rep.violation("s3-walk-too-long/"+b.Mode, fmt.Sprintf("%d listing requests for %d keys, page size %d, %d prefixes (bound %d)", listingRequests, len(b.Keys), b.PageSize, len(prefixes), bound), map[string]any{"trail": trail})
	}
	if i%60 == 1 {
		rep.sample(map[string]any{"kind": "bucket", "mode": b.Mode, "page_size": b.PageSize, "keys": len(b.Keys), "listing_requests": listingRequests, "first_requests": firstN(trail, 4)}, 4)
	}
}

func firstN(s []string, n int) []string {
	if len(s) > n {
		return s[:n]
	}
	return s
}

func c19(r *vc.Run) int {
	nChildren := r.N(12, 48)
	docs := r.N(600, 6000)
	buckets := r.N(30, 220)
	m := newMerged()
	parallel(nChildren, 14, func(i int) {
		sc := c19Scenario{Seed: r.Seed, Index: i, Docs: docs, Buckets: buckets, MaxHops: []int{1, 2, 3, 100000}[i%4]}
		if sc.MaxHops != 100000 {
			sc.Buckets = 0 // a bucket walk needs hops for every page
		} else {
			sc.Buckets = buckets * 4
		}
		res := runChild(os.Getenv("VZ_BIN"), "c19", sc, filepath.Join(r.Scratch, fmt.Sprintf("c19-%d", i)), 25*time.Minute)
		absorb(r, m, res, fmt.Sprintf("child%d", i), sc, true)
	})
	cov := map[string]any{
		"evaluations":         m.Evaluations,
		"distinct_nontrivial": len(m.Distinct),
		"rule":                "one evaluation = one generated JSON / XML(RSS, Atom, sitemap, sitemapindex, generic) / M3U8 document, or one bucket walked to exhaustion, through the real preprocessor+postprocessor stages; distinct = distinct (document kind, URL class, position) and (bucket mode, page size, prefix use, size class) combinations that carried planted URLs",
		"samples":             m.Samples,
		"events":              m.Events,
		"classes":             m.Distinct,
	}
	if cov["samples"] == nil {
		cov["samples"] = []any{}
	}
	return r.Finish("exploration", cov, []string{
		"fetches are fabricated with the exported setters + the real archiver.ProcessBody; extraction, dispatch, asset/outlink creation, normalisation, scope and seencheck are the real stages",
		"the bucket model answers the exact request URL Zeno generated (marker / continuation-token as start-after key); object links are followed through the extractor only",
		"file-extension rule as stated: a dot in the last path segment (not at its end)",
	}, 30)
}
