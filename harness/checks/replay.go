package checks

import (
	"encoding/json"
	"fmt"
	"os"
)

// Replay prints a recorded witness and re-runs the check at the recorded seed and tier. Case lists are
// a pure function of (seed, tier), so input-determined violations (C05, C07, C09, C10, C11, C18, C19)
// reappear; for schedule-dependent ones the recorded history is the witness (no record/replay tool here).
func Replay(id, path string) int {
	b, err := os.ReadFile(path)
	if err != nil {
		fmt.Fprintln(os.Stderr, err)
		return 2
	}
	var w struct {
		Seed      int64  `json:"seed"`
		Tier      string `json:"tier"`
		Signature string `json:"signature"`
		What      string `json:"what"`
	}
	json.Unmarshal(b, &w)
	fmt.Printf("replay %s: signature %q recorded at seed %d, tier %s\n%s\n\n", id, w.Signature, w.Seed, w.Tier, w.What)
	if w.Tier != "quick" && w.Tier != "thorough" {
		w.Tier = "quick"
	}
	os.Setenv("VERIF_SEED", fmt.Sprint(w.Seed))
	return Run(id, w.Tier)
}
