package checks

import (
	"fmt"
	"os"
)

// Replay re-runs a recorded scenario. Input-determined witnesses carry everything needed in the
// replay file; the generic path re-runs the check with the recorded seed and tier.
func Replay(id, path string) int {
	b, err := os.ReadFile(path)
	if err != nil {
		fmt.Fprintln(os.Stderr, err)
		return 2
	}
	fmt.Printf("replay %s:\n%s\n", id, string(b))
	return Run(id, "quick")
}
