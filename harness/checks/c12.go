package checks

import (
	"fmt"
	"math/rand"
	"os"
	"path/filepath"
	"runtime"
	"sort"
	"strings"
	"sync"
	"sync/atomic"
	"time"

	"github.com/anishathalye/porcupine"
	"github.com/internetarchive/Zeno/internal/pkg/reactor"
	"github.com/internetarchive/Zeno/internal/pkg/verifhook"
	"github.com/internetarchive/Zeno/internal/verif/vc"
	"github.com/internetarchive/Zeno/pkg/models"
)

// C12 — reactor: bounded in-flight seeds, exact token accounting, no deadlock.
//
// Concurrent clients drive the real reactor through its public API; every call is recorded at the
// client boundary (call/return stamps from one atomic counter) and the history is checked for
// linearizability against a sequential model of {tracked set <= cap, frozen, stopped} with porcupine.
// Quiescent invariants: tokens in use == tracked seeds == what the history implies; deliveries on the
// output channel == accepted inserts + accepted feedbacks.

func init() {
	register("C12", c12)
	registerChild("c12", c12Child)
}

type c12Scenario struct {
	Seed      int64 `json:"seed"`
	First     int   `json:"first"`
	Histories int   `json:"histories"`
}

type c12In struct {
	Kind string // insert feedback finish freeze stop
	ID   string
}

type c12State struct {
	Tracked string // sorted, comma separated
	N       int
	Frozen  bool
	Stopped bool
}

func c12Has(tracked, id string) bool {
	for _, t := range strings.Split(tracked, ",") {
		if t == id && id != "" {
			return true
		}
	}
	return false
}

func c12Add(tracked, id string) string {
	l := []string{}
	if tracked != "" {
		l = strings.Split(tracked, ",")
	}
	l = append(l, id)
	sort.Strings(l)
	return strings.Join(l, ",")
}

func c12Del(tracked, id string) string {
	l := []string{}
	for _, t := range strings.Split(tracked, ",") {
		if t != id && t != "" {
			l = append(l, t)
		}
	}
	return strings.Join(l, ",")
}

func c12Model(cap int) porcupine.Model {
	return porcupine.Model{
		Init: func() any { return c12State{} },
		Step: func(state, input, output any) (bool, any) {
			s := state.(c12State)
			in := input.(c12In)
			out := output.(string)
			rejectedByStop := out == "shutdown" || out == "notinit"
			switch in.Kind {
			case "freeze":
				s.Frozen = true
				return true, s
			case "stop":
				s.Stopped = true
				return true, s
			case "insert":
				switch {
				case out == "ok":
					if s.Frozen || s.Stopped || s.N >= cap || c12Has(s.Tracked, in.ID) {
						return false, s
					}
					s.Tracked = c12Add(s.Tracked, in.ID)
					s.N++
					return true, s
				case out == "frozen":
					return s.Frozen, s
				case rejectedByStop:
					return s.Stopped, s
				}
			case "feedback":
				switch {
				case out == "ok":
					return c12Has(s.Tracked, in.ID) && !s.Frozen && !s.Stopped, s
				case out == "notpresent":
					return !c12Has(s.Tracked, in.ID), s
				case out == "frozen":
					return s.Frozen, s
				case rejectedByStop:
					return s.Stopped, s
				}
			case "finish":
				switch {
				case out == "ok":
					if !c12Has(s.Tracked, in.ID) {
						return false, s
					}
					s.Tracked = c12Del(s.Tracked, in.ID)
					s.N--
					return true, s
				case out == "notfound":
					return !c12Has(s.Tracked, in.ID), s
				case rejectedByStop:
					return s.Stopped, s
				}
			}
			return false, s
		},
		DescribeOperation: func(input, output any) string {
			in := input.(c12In)
			return fmt.Sprintf("%s(%s) -> %v", in.Kind, in.ID, output)
		},
	}
}

func c12Err(err error) string {
	switch err {
	case nil:
		return "ok"
	case reactor.ErrReactorFrozen:
		return "frozen"
	case reactor.ErrReactorShuttingDown:
		return "shutdown"
	case reactor.ErrReactorNotInitialized:
		return "notinit"
	case reactor.ErrFeedbackItemNotPresent:
		return "notpresent"
	case reactor.ErrFinisehdItemNotFound:
		return "notfound"
	}
	return "other:" + err.Error()
}

func c12Item(id string) *models.Item {
	u := &models.URL{Raw: "http://h.example/" + id}
	u.Parse()
	return models.NewItem(id, u, "")
}

type c12History struct {
	mu   sync.Mutex
	ops  []porcupine.Operation
	ts   atomic.Int64
	strs []string
}

func (h *c12History) do(client int, in c12In, f func() string) string {
	call := h.ts.Add(1)
	out := f()
	ret := h.ts.Add(1)
	h.mu.Lock()
	h.ops = append(h.ops, porcupine.Operation{ClientId: client, Input: in, Call: call, Output: out, Return: ret})
	h.mu.Unlock()
	return out
}

// c12OneHistory runs one concurrent history against the real reactor and checks it.
func c12OneHistory(rep *childReport, seed int64, idx int) {
	rng := rand.New(rand.NewSource(vc.DeriveSeed(seed, "C12", "history", idx)))
	caps := []int{1, 2, 3, 4, 8}
	cap := caps[rng.Intn(len(caps))]
	nProd := 1 + rng.Intn(3)
	nWork := 1 + rng.Intn(3)
	insPerProd := 2 + rng.Intn(5)
	freezeAfter := 4 + rng.Intn(14) // controller freezes after this many recorded ops
	perturb := rng.Intn(3)          // 0 none, 1 gosched, 2 tiny sleeps
	outBuf := rng.Intn(2) * rng.Intn(3)

	var prMu sync.Mutex
	prng := rand.New(rand.NewSource(rng.Int63()))
	verifhook.SetHandler(func(point, id, url string, n int, item any) {
		if perturb == 0 {
			return
		}
		prMu.Lock()
		x := prng.Intn(8)
		prMu.Unlock()
		switch {
		case x < 3:
			runtime.Gosched()
		case x == 3 && perturb == 2:
			time.Sleep(time.Duration(20+x*30) * time.Microsecond)
		}
	})
	defer verifhook.SetHandler(nil)

	out := make(chan *models.Item, outBuf)
	if err := reactor.Start(cap, out); err != nil {
		rep.violation("start-failed", err.Error(), nil)
		return
	}
	h := &c12History{}
	held := make(chan *models.Item, 256)
	var delivered sync.Map // id -> *atomic.Int64
	var deliveredTotal atomic.Int64
	stopConsumer := make(chan struct{})
	var consumerWg sync.WaitGroup
	consumerWg.Add(1)
	go func() {
		defer consumerWg.Done()
		for {
			select {
			case it := <-out:
				if it == nil {
					return
				}
				c, _ := delivered.LoadOrStore(it.GetID(), new(atomic.Int64))
				c.(*atomic.Int64).Add(1)
				deliveredTotal.Add(1)
				held <- it
			case <-stopConsumer:
				return
			}
		}
	}()

	var accepted atomic.Int64 // accepted inserts + accepted feedbacks
	var rebuilt atomic.Int64  // operations issued through a rebuilt object with the tracked id
	var clients sync.WaitGroup
	client := 0
	unknownStored := func(id string) {
		for _, k := range reactor.GetStateTable() {
			if k == id {
				rep.violation("feedback-unknown-has-side-effect", fmt.Sprintf("ReceiveFeedback for the never-inserted seed %s returned ErrFeedbackItemNotPresent but left it in the state table", id), map[string]any{"cap": cap})
			}
		}
	}
	for p := 0; p < nProd; p++ {
		client++
		cid := client
		prr := rand.New(rand.NewSource(rng.Int63()))
		clients.Add(1)
		go func() {
			defer clients.Done()
			for i := 0; i < insPerProd; i++ {
				id := fmt.Sprintf("s%d.%d", cid, i)
				it := c12Item(id)
				if h.do(cid, c12In{"insert", id}, func() string { return c12Err(reactor.ReceiveInsert(it)) }) == "ok" {
					accepted.Add(1)
				}
				if prr.Intn(3) == 0 {
					runtime.Gosched()
				}
			}
		}()
	}
	for w := 0; w < nWork; w++ {
		client++
		cid := client
		wr := rand.New(rand.NewSource(rng.Int63()))
		clients.Add(1)
		go func() {
			defer clients.Done()
			idle := 0
			unk := 0
			for idle < 6 {
				select {
				case it := <-held:
					idle = 0
					id := it.GetID()
					if wr.Intn(7) == 0 {
						// two parties act on the same seed at once (the quantifier allows any interleaving): a feedback racing a finish
						var pair sync.WaitGroup
						var gate atomic.Int32
						pair.Add(2)
						go func() {
							defer pair.Done()
							gate.Add(1)
							for gate.Load() < 2 {
							}
							if h.do(cid+100, c12In{"feedback", id}, func() string { return c12Err(reactor.ReceiveFeedback(it)) }) == "ok" {
								accepted.Add(1)
							}
						}()
						go func() {
							defer pair.Done()
							gate.Add(1)
							for gate.Load() < 2 {
							}
							h.do(cid+200, c12In{"finish", id}, func() string { return c12Err(reactor.MarkAsFinished(it)) })
						}()
						pair.Wait()
						continue
					}
					if wr.Intn(5) == 0 {
						// the reactor's interface identifies a seed by its id (ReceiveFeedback replaces the tracked object by
						// whichever object carries the id): act through a rebuilt object, as a client that re-creates the seed would
						it = c12Item(id)
						rebuilt.Add(1)
					}
					if wr.Intn(10) < 4 {
						if h.do(cid, c12In{"feedback", id}, func() string { return c12Err(reactor.ReceiveFeedback(it)) }) == "ok" {
							accepted.Add(1)
						} else {
							// rejected (frozen): this client still holds the seed; finish it so tokens can drain
							h.do(cid, c12In{"finish", id}, func() string { return c12Err(reactor.MarkAsFinished(it)) })
						}
					} else {
						h.do(cid, c12In{"finish", id}, func() string { return c12Err(reactor.MarkAsFinished(it)) })
						if wr.Intn(4) == 0 { // repeated finish
							h.do(cid, c12In{"finish", id}, func() string { return c12Err(reactor.MarkAsFinished(it)) })
						}
					}
					if wr.Intn(5) == 0 { // unknown seed
						unk++
						uid := fmt.Sprintf("u%d.%d", cid, unk)
						uit := c12Item(uid)
						if wr.Intn(2) == 0 {
							h.do(cid, c12In{"feedback", uid}, func() string { return c12Err(reactor.ReceiveFeedback(uit)) })
							unknownStored(uid)
						} else {
							h.do(cid, c12In{"finish", uid}, func() string { return c12Err(reactor.MarkAsFinished(uit)) })
						}
					}
				case <-time.After(2 * time.Millisecond):
					idle++
				}
			}
		}()
	}
	// controller: freeze after a number of recorded operations (or when nothing moves any more)
	client++
	ctl := client
	clients.Add(1)
	go func() {
		defer clients.Done()
		last, same := int64(-1), 0
		for {
			now := h.ts.Load()
			if now >= int64(2*freezeAfter) {
				break
			}
			if now == last {
				same++
				if same > 20 {
					break
				}
			} else {
				same, last = 0, now
			}
			time.Sleep(200 * time.Microsecond)
		}
		h.do(ctl, c12In{"freeze", ""}, func() string { reactor.Freeze(); return "ok" })
	}()

	finished := make(chan struct{})
	go func() { clients.Wait(); close(finished) }()
	select {
	case <-finished:
	case <-time.After(20 * time.Second):
		rep.inconclusive("history-watchdog")
		buf := make([]byte, 1<<16)
		buf = buf[:runtime.Stack(buf, true)]
		os.WriteFile(filepath.Join(os.Getenv("VZ_CHILD_DIR"), fmt.Sprintf("stuck-%d.txt", idx)), buf, 0o644)
		return
	}
	// quiescence: every accepted insert/feedback must come out while the consumer reads
	lost := false
	for spins := 0; deliveredTotal.Load() < accepted.Load(); spins++ {
		if spins > 4000 {
			lost = true
			break
		}
		time.Sleep(500 * time.Microsecond)
	}
	// drain what is held: finish everything so that tokens == tracked can be compared with the history
	for {
		select {
		case it := <-held:
			h.do(ctl, c12In{"finish", it.GetID()}, func() string { return c12Err(reactor.MarkAsFinished(it)) })
			continue
		default:
		}
		break
	}
	if lost {
		rep.violation("accepted-seed-not-delivered", fmt.Sprintf("%d inserts/feedbacks were accepted but only %d items came out of the reactor with a consumer reading (input len %d)", accepted.Load(), deliveredTotal.Load(), reactor.VerifInputLen()), map[string]any{"cap": cap})
	}
	tokens := reactor.VerifTokensInUse()
	table := reactor.GetStateTable()
	// what the history implies
	insOK, finOK := 0, 0
	for _, op := range h.ops {
		in := op.Input.(c12In)
		if op.Output.(string) == "ok" {
			switch in.Kind {
			case "insert":
				insOK++
			case "finish":
				finOK++
			}
		}
	}
	if tokens != len(table) || tokens != insOK-finOK {
		rep.violation("token-accounting", fmt.Sprintf("at quiescence tokens in use=%d, tracked seeds=%d, accepted inserts - successful finishes=%d (cap %d)", tokens, len(table), insOK-finOK, cap), map[string]any{"table": table})
	}
	if tokens > cap || len(table) > cap {
		rep.violation("over-capacity", fmt.Sprintf("tokens=%d tracked=%d cap=%d", tokens, len(table), cap), nil)
	}
	close(stopConsumer)
	consumerWg.Wait()
	h.do(ctl, c12In{"stop", ""}, func() string { reactor.Stop(); return "ok" })
	// after stop nothing is accepted
	for _, k := range []string{"insert", "feedback", "finish"} {
		id := "after-stop-" + k
		it := c12Item(id)
		h.do(ctl, c12In{k, id}, func() string {
			switch k {
			case "insert":
				return c12Err(reactor.ReceiveInsert(it))
			case "feedback":
				return c12Err(reactor.ReceiveFeedback(it))
			}
			return c12Err(reactor.MarkAsFinished(it))
		})
	}

	res, info := porcupine.CheckOperationsVerbose(c12Model(cap), h.ops, 20*time.Second)
	rep.Evaluations++
	rep.event("ops", len(h.ops))
	rep.event("deliveries", int(deliveredTotal.Load()))
	rep.event("ops_through_rebuilt_object", int(rebuilt.Load()))
	kinds := map[string]int{}
	overlap := 0
	for i, op := range h.ops {
		kinds[op.Input.(c12In).Kind+"->"+op.Output.(string)]++
		for j := 0; j < i; j++ {
			if h.ops[j].Return > op.Call && h.ops[j].Call < op.Return {
				overlap++
				break
			}
		}
	}
	for k, n := range kinds {
		rep.event(k, n)
	}
	rep.event("overlapping_ops", overlap)
	// interleaving signature: the order of operation kinds by call stamp
	sorted := append([]porcupine.Operation(nil), h.ops...)
	sort.Slice(sorted, func(i, j int) bool { return sorted[i].Call < sorted[j].Call })
	var sb strings.Builder
	for _, op := range sorted {
		sb.WriteString(op.Input.(c12In).Kind[:2])
		sb.WriteString(op.Output.(string)[:1])
		fmt.Fprintf(&sb, "%d.", op.Return-op.Call)
	}
	rep.distinct(fmt.Sprintf("cap%d:%x", cap, vc.DeriveSeed(0, sb.String(), "")))
	desc := func() []string {
		l := []string{}
		for _, op := range sorted {
			l = append(l, fmt.Sprintf("c%d [%d,%d] %s(%s)->%s", op.ClientId, op.Call, op.Return, op.Input.(c12In).Kind, op.Input.(c12In).ID, op.Output))
		}
		return l
	}
	switch res {
	case porcupine.Illegal:
		sig := "not-linearizable"
		// classify: accepted after freeze returned?
		var freezeRet int64 = -1
		for _, op := range h.ops {
			if op.Input.(c12In).Kind == "freeze" {
				freezeRet = op.Return
			}
		}
		for _, op := range h.ops {
			in := op.Input.(c12In)
			if freezeRet >= 0 && op.Call > freezeRet && op.Output.(string) == "ok" && (in.Kind == "insert" || in.Kind == "feedback") {
				sig = "accepted-after-freeze/" + in.Kind
				break
			}
		}
		_ = info
		rep.violation(sig, fmt.Sprintf("history of %d operations (cap %d) is not linearizable w.r.t. the reactor model", len(h.ops), cap), map[string]any{"cap": cap, "history": desc()})
	case porcupine.Unknown:
		rep.inconclusive("porcupine-timeout")
	}
	if idx%97 == 0 {
		rep.sample(map[string]any{"cap": cap, "producers": nProd, "workers": nWork, "history": desc()}, 3)
	}
}

func c12Child(scPath string) int {
	var sc c12Scenario
	if err := readJSON(scPath, &sc); err != nil {
		return 2
	}
	dir := os.Getenv("VZ_CHILD_DIR")
	zenoConfig(dir, false, nil)
	rep := newReport()
	for i := 0; i < sc.Histories; i++ {
		c12OneHistory(rep, sc.Seed, sc.First+i)
		if len(rep.Violations) >= 40 {
			break
		}
	}
	rep.write(dir)
	return 0
}

func c12(r *vc.Run) int {
	total := r.N(2400, 60000)
	nChildren := r.N(12, 48)
	per := total / nChildren
	raceEvery := 4 // every 4th child uses the race-detector build
	m := newMerged()
	parallel(nChildren, 12, func(i int) {
		bin := os.Getenv("VZ_BIN")
		label := fmt.Sprintf("child%d", i)
		n := per
		if i%raceEvery == 0 && os.Getenv("VZ_BIN_RACE") != "" {
			bin = os.Getenv("VZ_BIN_RACE")
			label += "-race"
			n = per / 3
		}
		sc := c12Scenario{Seed: r.Seed, First: i * per, Histories: n}
		res := runChild(bin, "c12", sc, filepath.Join(r.Scratch, fmt.Sprintf("c12-%d", i)), 15*time.Minute)
		absorb(r, m, res, label, sc, true)
	})
	// bulk runs over the token-count axis (see c12bulk.go)
	var bulk []c12BulkScenario
	for i, t := range []int{1, 3, 64, 1000, 9000, 20000} {
		variants := 1
		if r.Thorough() {
			variants = 4
		}
		for v := 0; v < variants; v++ {
			seeds := 2*t + 50
			bulk = append(bulk, c12BulkScenario{Seed: r.Seed, Index: len(bulk), Tokens: t, Seeds: seeds, Producers: 1 + (i+v)%3, Consumers: []int{1, 2, 4, 1}[v], OutBuf: []int{0, 1, t, 0}[(i+v)%4], HeadStart: []int{300, 0, 50, 1000}[v]})
		}
	}
	parallel(len(bulk), 6, func(i int) {
		res := runChild(os.Getenv("VZ_BIN"), "c12-bulk", bulk[i], filepath.Join(r.Scratch, fmt.Sprintf("c12b-%d", i)), 5*time.Minute)
		absorb(r, m, res, fmt.Sprintf("bulk%d[tokens=%d]", i, bulk[i].Tokens), bulk[i], true)
	})
	for s, n := range m.Races {
		r.Note("race report x%d: %s", n, s)
	}
	cov := map[string]any{
		"evaluations":         m.Evaluations,
		"distinct_nontrivial": len(m.Distinct),
		"rule":                "bulk runs: one reactor with 1..20000 tokens, producers inserting 2x that many seeds while the consumers are away, consumers feeding every seed back once (synchronously) and finishing it: must complete, exact delivery and token counts; one evaluation = one concurrent history (1-3 producers, 1-3 workers, consumer, controller; cap in {1,2,3,4,8}; seeded hook-point perturbation) on the real reactor, checked with porcupine + quiescent invariants; distinct = distinct interleaving signatures (order of operation kinds, results and call/return spans by the global stamp)",
		"samples":             m.Samples,
		"events":              m.Events,
		"children":            m.Children,
		"race_report_kinds":   len(m.Races),
	}
	if cov["samples"] == nil {
		cov["samples"] = []any{}
	}
	return r.Finish("exploration", cov, []string{
		"clients behave like pipeline stages: only a seed taken from the output is fed back or finished (plus deliberately unknown ids and repeated finishes); stop is issued once clients are idle, as stopPipeline does",
		"strict model: after Freeze() or Stop() has returned no insert and no feedback may be accepted",
		"porcupine timeout (20 s) counts as inconclusive",
	}, 100)
}
