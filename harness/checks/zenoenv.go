package checks

import (
	"os"
	"path/filepath"
	"sync"
	"time"

	"github.com/internetarchive/Zeno/internal/pkg/config"
)

var zenoCfgOnce sync.Once

// zenoConfig initialises Zeno's global configuration in this process the way `Zeno get url` would
// (flag defaults from cmd/get.go), chdir'ed into dir so that the relative JobPath lands in scratch.
// mut can then adjust fields. Logging to stdout/stderr is off; file logging only if logFile.
func zenoConfig(dir string, logFile bool, mut func(c *config.Config)) *config.Config {
	zenoCfgOnce.Do(func() {
		os.MkdirAll(dir, 0o755)
		os.Setenv("HOME", dir) // no ~/zeno-config.yaml
		if err := os.Chdir(dir); err != nil {
			panic(err)
		}
		if err := config.InitConfig(); err != nil {
			panic(err)
		}
		c := config.Get()
		c.Job = "j"
		c.WorkersCount = 1
		c.MaxConcurrentAssets = 1
		c.MaxRedirect = 20
		c.MaxRetry = 5
		c.HTTPTimeout = -1
		c.HTTPReadDeadline = 60
		c.RateLimitCapacity = 150
		c.RateLimitRefillRate = 50
		c.RateLimitCleanupFrequency = 5 * time.Minute
		c.WARCPrefix = "ZENO"
		c.WARCPoolSize = 1
		c.WARCQueueSize = -1
		c.WARCDedupeSize = 1024
		c.WARCSize = 1024
		c.WARCDiscardStatus = []int{429}
		c.APIPort = 9090
		c.StdoutLogLevel = "info"
		c.TUILogLevel = "info"
		c.LogFileLevel = "info"
		c.LogFilePrefix = "ZENO"
		c.LogFileRotation = "1h"
		c.PrometheusPrefix = "zeno_"
		c.ConsulPort = "8500"
		c.NoStdoutLogging = true
		c.NoStderrLogging = true
		c.NoFileLogging = !logFile
		c.MinSpaceRequired = 1e-6 // ~1 KiB: the disk guard must not interfere with scratch volumes
		c.UserAgent = "verif-harness"
	})
	c := config.Get()
	if mut != nil {
		mut(c)
	}
	return c
}

func scratchDir(sub string) string {
	d := filepath.Join(os.Getenv("VZ_SCRATCH"), sub)
	if os.Getenv("VZ_SCRATCH") == "" {
		d, _ = os.MkdirTemp("", "vz-"+sub)
	}
	os.MkdirAll(d, 0o755)
	return d
}
