package checks

import (
	"fmt"
	"github.com/internetarchive/Zeno/internal/pkg/controler/pause"
	"os"
	"path/filepath"
	"strings"
	"sync/atomic"
	"time"

	"github.com/internetarchive/Zeno/internal/pkg/reactor"
	"github.com/internetarchive/Zeno/internal/pkg/stats"
	"github.com/internetarchive/Zeno/internal/verif/vc"
	"github.com/internetarchive/Zeno/pkg/models"
)

// C01 — each accepted seed is finished exactly once, only after its whole tree is done.
// Full real pipeline (controler.Start), seeds entering through the real local queue, generated sites.

func init() {
	register("C01", c01)
	registerChild("pipe-c01", c01Child)
}

type c01Scenario struct {
	Seed    int64      `json:"seed"`
	Index   int        `json:"index"`
	Cfg     pipeConfig `json:"cfg"`
	NSeeds  int        `json:"n_seeds"`
	NHubs   int        `json:"n_hubs"`
	Perturb int        `json:"perturb"`
	// PauseBeforeStop (C17's pipeline runs): once the crawl has drained, pause the pipeline, compare the
	// worker gauges with the live workers while they are parked, then stop - while still paused (odd
	// index) or after a resume (even index)
	PauseBeforeStop bool `json:"pause_before_stop,omitempty"`
}

func c01Child(scPath string) int {
	var sc c01Scenario
	if err := readJSON(scPath, &sc); err != nil {
		return 2
	}
	dir := os.Getenv("VZ_CHILD_DIR")
	rep := newReport()
	defer rep.write(dir)
	pr := newPipeRun(dir, sc.Cfg)
	org, err := newOrigin(pr.nextSeq)
	if err != nil {
		rep.violation("harness/origin", err.Error(), nil)
		return 0
	}
	pr.org = org
	site := &genSite{o: org, port: org.Port, rng: pipeRand(sc.Seed, "site", sc.Index), maxRedirect: sc.Cfg.MaxRedirect}
	site.build(sc.NSeeds, sc.NHubs)
	if err := pr.applyConfig(site.Hubs); err != nil {
		rep.violation("harness/config", err.Error(), nil)
		return 0
	}
	pr.perturb, pr.perturbSeed = sc.Perturb, vc.DeriveSeed(sc.Seed, "C01", "perturb", sc.Index)
	pr.installHooks(false)
	// in-line assertion while the finisher goroutine still owns the seed: nothing in the tree awaits work
	pr.itemHooks["fin.notify"] = func(item any, seq int64) {
		seed, ok := item.(*models.Item)
		if !ok {
			return
		}
		var pending []string
		n := 0
		seed.Traverse(func(it *models.Item) {
			n++
			// awaiting a fetch or post-processing (a GotRedirected/GotChildren node whose children are all
			// done has been fetched itself: its status is simply not rewritten when the seed is completed directly)
			if st := it.GetStatus(); st == models.ItemFresh || st == models.ItemPreProcessed || st == models.ItemArchived {
				pending = append(pending, fmt.Sprintf("%s(%s %s)", it.GetShortID(), it.GetURL().Raw, it.GetStatus()))
			}
		})
		rep.event("tree_nodes_at_notify", n)
		if len(pending) > 0 {
			rep.violation("pending-node-at-finish", fmt.Sprintf("seed %s reported finished while %d node(s) of its tree still await work: %v", seed.GetID(), len(pending), pending), map[string]any{"tree": seed.DrawTreeWithStatus()})
		}
	}
	pr.start(false)
	verdict := pr.waitQuiescent(6500*time.Millisecond, 12*time.Second, 150*time.Second)
	evs := pr.eventsCopy()
	rep.Evaluations = 1
	rep.Extra["verdict"] = verdict
	// ---- offline oracle over the event log ----
	inserted := map[string]int64{}
	insertedURL := map[string]string{}
	order := map[string]int{}
	notified := map[string][]int64{}
	sourceGot := map[string]int{}
	for _, e := range evs {
		switch e.Point {
		case "reactor.insert":
			inserted[e.ID] = e.Seq
			insertedURL[e.ID] = e.URL
			order[e.ID] = len(order)
		case "fin.notified":
			notified[e.ID] = append(notified[e.ID], e.Seq)
		case "lq.finish.recv", "hq.finish.recv":
			sourceGot[e.ID]++
		}
	}
	rep.event("seeds_inserted", len(inserted))
	rep.event("seeds_notified", len(notified))
	rep.event("origin_requests", len(org.snapshot()))
	rep.event("hook_events", len(evs))
	rep.event("expected_queue_seeds", len(site.Seeds))
	witness := func(id string) map[string]any {
		var l []string
		for _, e := range evs {
			if e.ID == id {
				l = append(l, fmt.Sprintf("%d %s %s %d", e.Seq, e.Point, e.URL, e.N))
			}
		}
		if len(l) > 80 {
			l = append(l[:40], l[len(l)-40:]...)
		}
		return map[string]any{"seed_url": insertedURL[id], "events_of_seed": l, "cfg": sc.Cfg}
	}
	for id, ns := range notified {
		if _, ok := inserted[id]; !ok {
			rep.violation("finish-for-unknown-seed", fmt.Sprintf("finish notification for %s which was never accepted by the reactor", id), witness(id))
		}
		if len(ns) > 1 {
			rep.violation("finished-twice", fmt.Sprintf("seed %s (%s) was reported finished %d times", id, insertedURL[id], len(ns)), witness(id))
		}
		if sourceGot[id] != len(ns) {
			rep.violation("source-finish-count", fmt.Sprintf("seed %s: %d finish notifications sent, the queue received %d", id, len(ns), sourceGot[id]), witness(id))
		}
	}
	if verdict == "quiescent" || verdict == "stuck" {
		for id := range inserted {
			if len(notified[id]) == 0 {
				d := goroutineDump()
				w := witness(id)
				w["parked"] = stuckFrames(d)
				w["state_table"] = reactor.GetStateTable()
				rep.violation("seed-never-finished", fmt.Sprintf("seed %s (%s) was accepted but never reported finished; the pipeline is quiescent (%s)", id, insertedURL[id], verdict), w)
			}
		}
	} else {
		rep.inconclusive("no-quiescence:" + verdict)
	}
	// activity attributed to a seed after its finish notification
	for _, e := range evs {
		ns := notified[e.ID]
		if len(ns) == 0 || e.Seq <= ns[0] {
			continue
		}
		switch e.Point {
		case "pre.recv", "arch.recv", "post.recv", "fin.recv", "arch.item.start", "arch.do", "arch.item.end", "reactor.feedback", "fin.feedback", "arch.feedback.wait", "arch.feedback.done":
			rep.violation("activity-after-finish/"+e.Point, fmt.Sprintf("seed %s: %s (%s) happened after it was reported finished", e.ID, e.Point, e.URL), witness(e.ID))
		}
	}
	if verdict == "quiescent" {
		// every URL that belongs to a tree (planted requisite of a document that was delivered in full,
		// target of a delivered redirect) must have been requested at least once in the run: fetched,
		// or legitimately skipped because an earlier fetch in this job recorded it
		olog := org.snapshot()
		requested := map[string]bool{}
		for _, l := range olog {
			requested[l.URL] = true
		}
		for _, l := range olog {
			for _, u := range l.Expect {
				rep.event("tree_urls_expected", 1)
				if !requested[u] {
					rep.violation("tree-url-never-requested/"+l.Tag, fmt.Sprintf("%s (%s, status %d) was delivered in full and puts %s into its seed's tree, but that URL was never requested although every seed is reported finished", l.URL, l.Tag, l.Status, u), map[string]any{"from": l, "missing": u})
				}
			}
		}
		// "reported back to that queue as finished": the row of every seed the finisher notified must be gone
		// from the queue database (the queue deletes by id; a finish report that names the wrong row leaves
		// the right one behind)
		if rows, err := readLQ(filepath.Join(dir, "jobs", "j", "lq.db")); err == nil {
			for _, row := range rows {
				rep.event("queue_rows_left_at_quiescence", 1)
				if len(notified[row.ID]) > 0 {
					rep.violation("finished-seed-row-still-in-queue", fmt.Sprintf("seed %s (%s) was reported finished (%d notification) but its row is still in the queue database with status %s at quiescence", row.ID, row.Value, len(notified[row.ID]), row.Status), witness(row.ID))
				}
			}
		}
		// every valid, in-scope URL the hubs put into the queue must have been taken from it and crawled
		if sc.Cfg.MaxHops >= 1 {
			hubsDelivered := 0
			for _, l := range olog {
				if l.Tag == "hub" && l.Completed && l.Status == 200 {
					hubsDelivered++
				}
			}
			if hubsDelivered >= len(site.Hubs) {
				for _, s := range site.Seeds {
					rep.event("queued_seeds_expected", 1)
					if !requested[s.URL] {
						rep.violation("queued-seed-never-requested/"+s.Shape, fmt.Sprintf("%s (%s) was linked from a delivered hub page and so entered the queue, but it was never requested although the pipeline is quiescent", s.URL, s.Shape), map[string]any{"seed": s})
					}
				}
			}
		}
		if t := reactor.GetStateTable(); len(t) != 0 || reactor.VerifTokensInUse() != 0 {
			rep.violation("reactor-not-empty-at-quiescence", fmt.Sprintf("state table %v, tokens in use %d", t, reactor.VerifTokensInUse()), nil)
		}
	}
	// interleaving signature: relative order of stage hand-offs across seeds
	var sb strings.Builder
	shapes := map[string]bool{}
	for _, e := range evs {
		switch e.Point {
		case "pre.recv", "arch.recv", "post.recv", "fin.recv", "fin.notified":
			fmt.Fprintf(&sb, "%s%d,", e.Point[:2], order[e.ID])
		}
	}
	rep.distinct(fmt.Sprintf("interleaving:%x", vc.DeriveSeed(0, sb.String(), "")))
	for _, s := range site.Seeds {
		shapes[s.Shape] = true
	}
	for s := range shapes {
		rep.event("seed_shape:"+s, 1)
	}
	tags := map[string]int{}
	for _, l := range org.snapshot() {
		tags[l.Tag]++
	}
	for t, n := range tags {
		rep.event("origin_tag:"+t, n)
	}
	// ---- C17 (pipeline level): counters against events ----
	var c17 []vrec
	if tot := stats.VerifTotals(); tot != nil && verdict == "quiescent" {
		starts, ends, archived := 0, 0, 0
		for _, e := range evs {
			switch e.Point {
			case "arch.item.start":
				starts++
			case "arch.item.end":
				ends++
				if models.ItemState(e.N) == models.ItemArchived {
					archived++
				}
			}
		}
		nNotified := 0
		for _, ns := range notified {
			nNotified += len(ns)
		}
		if int(tot.URLsCrawledTotal) != ends {
			c17 = append(c17, vrec{"pipeline/urls-crawled", fmt.Sprintf("URLs crawled total=%d but %d archiver item goroutines ended (%d started)", tot.URLsCrawledTotal, ends, starts), nil})
		}
		if int(tot.SeedsFinishedTotal) != nNotified {
			c17 = append(c17, vrec{"pipeline/seeds-finished", fmt.Sprintf("seeds finished total=%d but %d finish notifications", tot.SeedsFinishedTotal, nNotified), nil})
		}
		var codes uint64
		for _, v := range tot.HTTPCodesTotal {
			codes += v
		}
		if int(codes) != archived {
			c17 = append(c17, vrec{"pipeline/status-codes", fmt.Sprintf("per-status totals sum to %d (%v) but %d items were archived", codes, tot.HTTPCodesTotal, archived), nil})
		}
		w := uint64(max(1, sc.Cfg.Workers))
		if tot.PreprocessorRoutines != w || tot.ArchiverRoutines != w || tot.PostprocessorRoutines != w {
			c17 = append(c17, vrec{"pipeline/worker-gauges-running", fmt.Sprintf("gauges pre=%d arch=%d post=%d with %d workers configured", tot.PreprocessorRoutines, tot.ArchiverRoutines, tot.PostprocessorRoutines, w), nil})
		}
		if tot.MeanHTTPCount > 0 && stats.MeanHTTPRespTimeGet() != float64(tot.MeanHTTPSum)/float64(tot.MeanHTTPCount) {
			c17 = append(c17, vrec{"pipeline/mean", "mean HTTP response time != sum/count", nil})
		}
		rep.event("c17_counter_comparisons", 5)
	}
	if sc.PauseBeforeStop && verdict == "quiescent" {
		pause.Pause("Paused")
		last, stable := -1, 0
		for i := 0; i < 300 && stable < 10; i++ { // until the acknowledgements have stopped coming in
			time.Sleep(20 * time.Millisecond)
			if n := pr.count("pause.ack"); n == last {
				stable++
			} else {
				last, stable = n, 0
			}
		}
		rep.event("c17_pause_acks", last)
		w := uint64(max(1, sc.Cfg.Workers))
		if tot := stats.VerifTotals(); tot != nil && last > 0 && (tot.PreprocessorRoutines != w || tot.ArchiverRoutines != w || tot.PostprocessorRoutines != w) {
			c17 = append(c17, vrec{"pipeline/worker-gauges-while-paused", fmt.Sprintf("gauges pre=%d arch=%d post=%d while the %d workers of each stage are alive and parked in a pause", tot.PreprocessorRoutines, tot.ArchiverRoutines, tot.PostprocessorRoutines, w), nil})
		}
		if sc.Index%2 == 0 {
			resumed := make(chan struct{})
			go func() { pause.Resume(); close(resumed) }()
			select {
			case <-resumed:
			case <-time.After(20 * time.Second):
			}
			rep.event("c17_stop_after_resume", 1)
		} else {
			rep.event("c17_stop_while_paused", 1)
		}
	}
	// ---- stop ----
	done := make(chan struct{})
	go func() { pr.stop(); close(done) }()
	select {
	case <-done:
		if tot := stats.VerifTotals(); tot != nil && (tot.PreprocessorRoutines != 0 || tot.ArchiverRoutines != 0 || tot.PostprocessorRoutines != 0) {
			c17 = append(c17, vrec{"pipeline/worker-gauges-after-stop", fmt.Sprintf("gauges pre=%d arch=%d post=%d after stop", tot.PreprocessorRoutines, tot.ArchiverRoutines, tot.PostprocessorRoutines), nil})
		}
	case <-time.After(60 * time.Second):
		rep.Extra["stop_did_not_return"] = stuckFrames(goroutineDump())
	}
	rep.Extra["c17"] = c17
	if sc.Index%8 == 0 {
		var first []string
		for _, e := range evs[:min(len(evs), 30)] {
			first = append(first, fmt.Sprintf("%d %s %s %s", e.Seq, e.Point, e.ID, e.URL))
		}
		rep.sample(map[string]any{"cfg": sc.Cfg, "seeds": len(site.Seeds), "hubs": site.Hubs, "first_events": first}, 1)
	}
	return 0
}

func c01Matrix(r *vc.Run, n int) []c01Scenario {
	var out []c01Scenario
	for i := 0; i < n; i++ {
		rng := r.Rand("cfg", i)
		cfg := pipeConfig{
			Workers:             []int{1, 2, 4, 8}[i%4],
			MaxConcurrentAssets: []int{1, 2, 8}[(i/4)%3],
			DisableSeencheck:    (i/12)%2 == 1,
			MaxHops:             1,
			MaxRetry:            rng.Intn(3),
			MaxRedirect:         []int{20, 3, 1}[rng.Intn(3)],
			WARCPoolSize:        1 + rng.Intn(2),
			WARCWriteAsync:      i%5 == 3, // the finish rules do not depend on how the WARC writer is awaited
		}
		out = append(out, c01Scenario{Seed: r.Seed, Index: i, Cfg: cfg, NSeeds: 24 + rng.Intn(16), NHubs: 1 + rng.Intn(2), Perturb: i % 3})
	}
	return out
}

func c01(r *vc.Run) int {
	scs := c01Matrix(r, r.N(24, 320))
	m := newMerged()
	parallel(len(scs), 12, func(i int) {
		sc := scs[i]
		bin, label := os.Getenv("VZ_BIN"), fmt.Sprintf("run%d", i)
		if i%6 == 5 && os.Getenv("VZ_BIN_RACE") != "" {
			bin, label = os.Getenv("VZ_BIN_RACE"), label+"-race"
		}
		dir := filepath.Join(r.Scratch, fmt.Sprintf("c01-%d", i))
		res := runChild(bin, "pipe-c01", sc, dir, 6*time.Minute)
		absorb(r, m, res, label, sc, true)
		os.RemoveAll(dir)
	})
	// runs that are stopped in the middle (child of C04): a seed acknowledged as finished during the shutdown
	// sequence must not have nodes that still await work either
	stopRuns := r.N(5, 30)
	var stopChecked atomic.Int64
	var seqCtr atomic.Int64
	parallel(stopRuns, 10, func(i int) {
		org, err := newOrigin(func() int64 { return seqCtr.Add(1) })
		if err != nil {
			return
		}
		defer org.close()
		site := &genSite{o: org, port: org.Port, rng: pipeRand(r.Seed, "c01stop", i)}
		site.build(20, 1)
		drng := pipeRand(r.Seed, "c01stopdelay", i)
		org.mu.Lock()
		for _, rt := range org.routes {
			if drng.Intn(2) == 0 {
				rt.DelayMs = 20 + drng.Intn(200)
			}
		}
		org.mu.Unlock()
		trig := [][]trigger{{{"arch.do", 4, "stop"}}, {{"arch.resp", 7, "stop"}}, {{"post.recv", 3, "stop"}}, {{"arch.do", 11, "stop"}}, {{"fin.feedback", 2, "stop"}}, {{"arch.feedback.done", 5, "stop"}}}[i%6]
		sc := c04Scenario{Seed: r.Seed, Index: 9000 + i, Cfg: pipeConfig{Workers: 1 + i%4, MaxConcurrentAssets: 2, MaxHops: 1, MaxRetry: 1, MaxRedirect: 5, WARCPoolSize: 1, DisableSeencheck: i%2 == 0}, InputSeeds: site.Hubs, Triggers: trig, Run: 1}
		dir := filepath.Join(r.Scratch, fmt.Sprintf("c01-stop-%d", i))
		res := runChild(os.Getenv("VZ_BIN"), "pipe-c04", sc, dir, 4*time.Minute)
		if crashed, excerpt := res.Crashed(); crashed {
			r.Violation("crash/"+crashSig(res.Stderr), fmt.Sprintf("stop-run%d crashed: %s", i, truncate(excerpt, 500)), map[string]any{"scenario": sc})
		}
		stopChecked.Add(int64(len(readEvents(filepath.Join(dir, "events.log")))))
		if b, err := os.ReadFile(filepath.Join(dir, "inline-1.log")); err == nil {
			for _, l := range strings.Split(strings.TrimSpace(string(b)), "\n") {
				if l != "" {
					r.Violation("pending-node-at-finish/during-stop", fmt.Sprintf("stop-run%d %v: a seed was reported finished while nodes of its tree still awaited work: %s", i, trig, truncate(l, 500)), map[string]any{"scenario": sc})
				}
			}
		}
		os.RemoveAll(dir)
	})
	for s, n := range m.Races {
		r.Note("race report x%d: %s", n, s)
	}
	interleavings := 0
	for k := range m.Distinct {
		if strings.HasPrefix(k, "interleaving:") {
			interleavings++
		}
	}
	cov := map[string]any{
		"evaluations":               m.Events["seeds_inserted"],
		"distinct_nontrivial":       interleavings,
		"rule":                      "one evaluation = one seed accepted by the reactor in a full-pipeline run (hubs as input seeds, their anchors travel through the real local queue; generated sites with duplicate/shared/invalid/excluded assets, 4xx/5xx, retries, resets, redirect chains and loops, JSON/XML/M3U8 assets of assets) under a configuration from workers{1,2,4,8} x max-concurrent-assets{1,2,8} x seencheck on/off with seeded hook-point perturbation; distinct = distinct interleaving signatures (relative order of stage hand-offs and finish notifications across seeds)",
		"samples":                   m.Samples,
		"events":                    m.Events,
		"pipeline_runs":             m.Children,
		"stopped_mid_flight_runs":   stopRuns,
		"stopped_mid_flight_events": int(stopChecked.Load()),
		"interleaving_signatures":   interleavings,
	}
	if cov["samples"] == nil {
		cov["samples"] = []any{}
	}
	return r.Finish("exploration", cov, []string{
		"schedules are sampled (perturbed at hook points), not enumerated",
		"'never finished' is decided at structural quiescence: no hook event and no open origin request for 6.5 s (LQ batch timers are 5 s) with the reactor still tracking the seed; goroutine frames are the witness",
		"race-detector reports are diagnostics (notes), the event-log oracle decides",
	}, 8)
}
