package checks

import (
	"fmt"
	"math/rand"
	"net/http"
	"os"
	"path/filepath"
	"regexp"
	"strconv"
	"strings"
	"time"

	"github.com/internetarchive/Zeno/internal/pkg/config"
	"github.com/internetarchive/Zeno/internal/verif/vc"
	"github.com/internetarchive/Zeno/pkg/models"
)

// C06 — work per seed is bounded: redirects, asset depth, retries and hops.
// Part A (stage level): hop assignment of outlinks under max-hops x domains-crawl, through the real stages.
// Part B (end to end): an adversarial origin (endless redirect chains, loops, endlessly nested JSON/XML/M3U8,
// self-references, always-failing URLs) against the full pipeline; bounds read from the origin log and hook events.

func init() {
	register("C06", c06)
	registerChild("c06-hops", c06HopsChild)
	registerChild("pipe-c06", c06PipeChild)
}

// ---------------- Part A ----------------

type c06HopsScenario struct {
	Seed         int64    `json:"seed"`
	Index        int      `json:"index"`
	MaxHops      int      `json:"max_hops"`
	DomainsCrawl []string `json:"domains_crawl"`
	Cases        int      `json:"cases"`
}

func c06Match(u string, patterns []string) bool {
	for _, p := range patterns {
		if !strings.ContainsAny(p, `^\[(`) { // naive domain
			h := strings.SplitN(strings.SplitN(u, "://", 2)[1], "/", 2)[0]
			if h == p || strings.HasSuffix(h, "."+p) {
				return true
			}
			continue
		}
		if regexp.MustCompile(p).MatchString(u) {
			return true
		}
	}
	return false
}

func c06HopsChild(scPath string) int {
	var sc c06HopsScenario
	if err := readJSON(scPath, &sc); err != nil {
		return 2
	}
	dir := os.Getenv("VZ_CHILD_DIR")
	rep := newReport()
	defer rep.write(dir)
	zenoConfig(dir, false, func(c *config.Config) {
		c.WorkersCount = 2
		c.MaxHops = sc.MaxHops
		c.DomainsCrawl = sc.DomainsCrawl
	})
	h, err := startStages(true)
	if err != nil {
		rep.violation("harness/start", err.Error(), nil)
		return 0
	}
	dc := len(sc.DomainsCrawl) > 0
	for i := 0; i < sc.Cases; i++ {
		rng := rand.New(rand.NewSource(vc.DeriveSeed(sc.Seed, "C06", "hops", sc.Index, i)))
		tg := &tokGen{prefix: fmt.Sprintf("o%dc%d", sc.Index, i)}
		pageHops := rng.Intn(4)
		pageHost := pick(rng, []string{"pages.example", "dc.example", "www.dc.example", "other.example"})
		pageURL := fmt.Sprintf("https://%s/p%d-%d.html", pageHost, sc.Index, i)
		viaRedirect := rng.Intn(3) == 0
		type exp struct {
			url, where string
		}
		var exps []exp
		var anchors []string
		mkOut := func(where string) string {
			host := pick(rng, []string{"dc.example", "sub.dc.example", "other.example", "notdc.example.org", "xdc.example", "notdc.example", "my-dc.example", "a.b.dc.example"})
			u := fmt.Sprintf("https://%s/t/%s", host, tg.next())
			exps = append(exps, exp{u, where})
			return u
		}
		for k := 0; k < 1+rng.Intn(4); k++ {
			anchors = append(anchors, mkOut("anchor"))
		}
		// a JSON asset whose extension-less URLs become outlinks of the asset
		var jsonOut []string
		for k := 0; k < rng.Intn(3); k++ {
			jsonOut = append(jsonOut, fmt.Sprintf("%q", mkOut("asset-json")))
		}
		// a bare host in the JSON (no path): first classified as an asset by its "extension" (the TLD), then
		// moved to the outlinks - it is an outlink of the asset like the others
		if rng.Intn(3) == 0 {
			host := pick(rng, []string{"dc.example", "other.example", "notdc.example"})
			u := fmt.Sprintf("https://%s.%s", tg.next(), host)
			exps = append(exps, exp{u, "asset-json-bare-host"})
			jsonOut = append(jsonOut, fmt.Sprintf("%q", u))
		}
		// outlinks announced in a Link response header of the page
		pageHdr := http.Header{"Content-Type": {"text/html"}}
		if rng.Intn(2) == 0 {
			var ls []string
			for k := 0; k < 1+rng.Intn(2); k++ {
				ls = append(ls, "<"+mkOut("link-header")+">; rel=\""+pick(rng, []string{"next", "prev", "canonical"})+"\"")
			}
			pageHdr.Set("Link", strings.Join(ls, ", "))
		}
		jsonURL := fmt.Sprintf("https://%s/d/%s.json", pageHost, tg.next())
		page := htmlPage("p", []string{jsonURL}, anchors)
		firstURL := pageURL
		if viaRedirect {
			firstURL = fmt.Sprintf("https://%s/go/%s", pageHost, tg.next())
		}
		seed, err := newSeed(fmt.Sprintf("s%d", i), firstURL, "", pageHops)
		if err != nil {
			continue
		}
		cr := h.crawl(seed, func(it *models.Item, wire string) *fakeResp {
			switch {
			case viaRedirect && it.GetDepth() == 0:
				return &fakeResp{Status: 302, Header: http.Header{"Location": {pageURL}}}
			case wire == pageURL:
				return &fakeResp{Status: 200, Header: pageHdr.Clone(), Body: page}
			case wire == jsonURL:
				return &fakeResp{Status: 200, Header: http.Header{"Content-Type": {"application/json"}}, Body: []byte(`{"links":[` + strings.Join(jsonOut, ",") + `]}`)}
			}
			return leafResp()
		}, 8)
		rep.Evaluations++
		if cr.Err != "" || !cr.Finished {
			rep.violation("harness/crawl", cr.Err, nil)
			continue
		}
		got := map[string]*models.Item{}
		for _, o := range cr.Outlinks {
			got[o.GetURL().Raw] = o
		}
		for _, e := range exps {
			match := dc && c06Match(e.url, sc.DomainsCrawl)
			wantQueued := match || pageHops < sc.MaxHops
			wantHops := pageHops + 1
			if match {
				wantHops = 0
			}
			class := fmt.Sprintf("%s/dc=%v/match=%v/below-limit=%v/redirected=%v", e.where, dc, match, pageHops < sc.MaxHops, viaRedirect)
			rep.distinct(class)
			rep.event("outlinks_judged", 1)
			o := got[e.url]
			w := map[string]any{"page": pageURL, "page_hops": pageHops, "max_hops": sc.MaxHops, "domains_crawl": sc.DomainsCrawl, "outlink": e.url, "where": e.where, "via_redirect": viaRedirect}
			switch {
			case wantQueued && o == nil:
				rep.violation("outlink-not-queued/"+e.where, fmt.Sprintf("outlink %s of a page at hops %d (max-hops %d, domains-crawl %v, match=%v) was not queued", e.url, pageHops, sc.MaxHops, sc.DomainsCrawl, match), w)
			case !wantQueued && o != nil:
				rep.violation("outlink-queued-beyond-hop-limit/"+e.where, fmt.Sprintf("outlink %s queued (hops %d) from a page at hops %d with max-hops %d and no domains-crawl match", e.url, o.GetURL().GetHops(), pageHops, sc.MaxHops), w)
			case o != nil && o.GetURL().GetHops() != wantHops:
				rep.violation("outlink-wrong-hops/"+e.where, fmt.Sprintf("outlink %s has hops %d, expected %d (page hops %d, match=%v)", e.url, o.GetURL().GetHops(), wantHops, pageHops, match), w)
			}
		}
		// assets and redirect targets inherit the page's hops
		for _, rq := range cr.Requests {
			if rq.Hops != pageHops {
				rep.violation("asset-or-redirect-hops", fmt.Sprintf("%s (depth %d) carries hops %d, the page has %d", rq.URL, rq.Depth, rq.Hops, pageHops), nil)
			}
		}
	}
	return 0
}

// ---------------- Part B ----------------

type c06PipeScenario struct {
	Seed  int64      `json:"seed"`
	Index int        `json:"index"`
	Cfg   pipeConfig `json:"cfg"`
	NTok  int        `json:"n_tok"`
}

var c06URI = regexp.MustCompile(`^/([a-z2]+)/(t[0-9]+)(?:/([0-9a-z]+))?(\.[a-z0-9]+)?$`)

func c06Fallback(port int) func(host, uri string) *route {
	return func(host, uri string) *route {
		m := c06URI.FindStringSubmatch(uri)
		if m == nil {
			return nil
		}
		kind, tok, arg := m[1], m[2], m[3]
		n, _ := strconv.Atoi(arg)
		base := "http://" + host
		switch kind {
		case "r": // endless redirect chain
			return &route{Status: 302, Headers: map[string]string{"Location": fmt.Sprintf("/r/%s/%d", tok, n+1)}, Tag: "chain"}
		case "loop":
			other := "a"
			if arg == "a" {
				other = "b"
			}
			return &route{Status: 301, Headers: map[string]string{"Location": fmt.Sprintf("%s/loop/%s/%s", base, tok, other)}, Tag: "loop"}
		case "self":
			return &route{Status: 302, Headers: map[string]string{"Location": uri}, Tag: "self"}
		case "page":
			assets := []string{
				fmt.Sprintf("/n/%s/1.json", tok), fmt.Sprintf("/nx/%s/1.xml", tok), fmt.Sprintf("/nm/%s/1.m3u8", tok),
				fmt.Sprintf("/fail/%s/x.png", tok), fmt.Sprintf("/reset/%s/x.png", tok), fmt.Sprintf("/rn/%s/0", tok), fmt.Sprintf("/selfref/%s/x.json", tok),
				fmt.Sprintf("/ar/%s/0", tok), fmt.Sprintf("/nr/%s/1.json", tok),
			}
			return &route{Status: 200, Headers: map[string]string{"Content-Type": "text/html"}, Body: htmlPage("adv", assets, nil), Tag: "page"}
		case "n": // endlessly nested JSON
			return &route{Status: 200, Headers: map[string]string{"Content-Type": "application/json"}, Body: []byte(fmt.Sprintf(`{"next":"%s/n/%s/%d.json","also":"%s/n/%s/%d.json"}`, base, tok, n+1, base, tok, n+1)), Tag: "nest-json"}
		case "nx":
			return &route{Status: 200, Headers: map[string]string{"Content-Type": "application/xml"}, Body: []byte(fmt.Sprintf(`<?xml version="1.0"?><l><e href="%s/nx/%s/%d.xml"/></l>`, base, tok, n+1)), Tag: "nest-xml"}
		case "nm":
			return &route{Status: 200, Headers: map[string]string{"Content-Type": "application/vnd.apple.mpegurl"}, Body: []byte(fmt.Sprintf("#EXTM3U\n#EXT-X-STREAM-INF:BANDWIDTH=1\n/nm/%s/%d.m3u8\n", tok, n+1)), Tag: "nest-m3u8"}
		case "fail":
			return &route{Status: 503, Body: []byte("always failing"), Tag: "always-503"}
		case "reset":
			return &route{AlwaysReset: true, Tag: "always-reset"}
		case "rn": // redirect inside an asset level, then nested JSON again
			if n < 2 {
				return &route{Status: 302, Headers: map[string]string{"Location": fmt.Sprintf("/rn/%s/%d", tok, n+1)}, Tag: "asset-redirect"}
			}
			return &route{Status: 200, Headers: map[string]string{"Content-Type": "application/json"}, Body: []byte(fmt.Sprintf(`{"next":"%s/n2/%s/2.json"}`, base, tok)), Tag: "asset-redirect-end"}
		case "n2":
			return &route{Status: 200, Headers: map[string]string{"Content-Type": "application/json"}, Body: []byte(fmt.Sprintf(`{"next":"%s/n2/%s/%d.json"}`, base, tok, n+1)), Tag: "nest-json-after-redirect"}
		case "selfref":
			return &route{Status: 200, Headers: map[string]string{"Content-Type": "application/json"}, Body: []byte(fmt.Sprintf(`{"me":"%s%s"}`, base, uri)), Tag: "self-reference"}
		case "ar": // endless redirect chain at asset level
			return &route{Status: 302, Headers: map[string]string{"Location": fmt.Sprintf("/ar/%s/%d", tok, n+1)}, Tag: "asset-chain"}
		case "nr": // endless nesting where every level is reached through a redirect
			return &route{Status: 302, Headers: map[string]string{"Location": fmt.Sprintf("/nrd/%s/%d.json", tok, n)}, Tag: "nest-behind-redirect"}
		case "nrd":
			return &route{Status: 200, Headers: map[string]string{"Content-Type": "application/json"}, Body: []byte(fmt.Sprintf(`{"next":"%s/nr/%s/%d.json"}`, base, tok, n+1)), Tag: "nest-json-behind-redirect"}
		case "failseed":
			return &route{Status: 500, Body: []byte("no"), Tag: "seed-500"}
		}
		return nil
	}
}

func c06PipeChild(scPath string) int {
	var sc c06PipeScenario
	if err := readJSON(scPath, &sc); err != nil {
		return 2
	}
	dir := os.Getenv("VZ_CHILD_DIR")
	rep := newReport()
	defer rep.write(dir)
	pr := newPipeRun(dir, sc.Cfg)
	org, err := newOrigin(pr.nextSeq)
	if err != nil {
		return 2
	}
	pr.org = org
	org.Fallback = c06Fallback(org.Port)
	var anchors []string
	for t := 0; t < sc.NTok; t++ {
		h := hostOf(7, 1+t, org.Port)
		tok := fmt.Sprintf("t%d", t)
		switch t % 5 {
		case 0:
			anchors = append(anchors, fmt.Sprintf("http://%s/page/%s", h, tok))
		case 1:
			anchors = append(anchors, fmt.Sprintf("http://%s/r/%s/0", h, tok))
		case 2:
			anchors = append(anchors, fmt.Sprintf("http://%s/loop/%s/a", h, tok))
		case 3:
			anchors = append(anchors, fmt.Sprintf("http://%s/self/%s", h, tok))
		default:
			anchors = append(anchors, fmt.Sprintf("http://%s/failseed/%s", h, tok))
		}
	}
	hub := hostOf(7, 250, org.Port)
	org.set(hub, "/hub.html", &route{Status: 200, Headers: map[string]string{"Content-Type": "text/html"}, Body: htmlPage("hub", nil, anchors), Tag: "hub"})
	if err := pr.applyConfig([]string{"http://" + hub + "/hub.html"}); err != nil {
		return 2
	}
	pr.perturb, pr.perturbSeed = 1, vc.DeriveSeed(sc.Seed, "C06", "perturb", sc.Index)
	pr.installHooks(false)
	pr.start(false)
	verdict := pr.waitQuiescent(6500*time.Millisecond, 14*time.Second, 240*time.Second)
	rep.Evaluations = 1
	rep.Extra["verdict"] = verdict
	evs := pr.eventsCopy()
	maxRedirect, maxRetry := sc.Cfg.MaxRedirect, sc.Cfg.MaxRetry
	w := map[string]any{"cfg": sc.Cfg}
	// bounds from the origin log
	for _, l := range org.snapshot() {
		m := c06URI.FindStringSubmatch(l.URI)
		if m == nil {
			continue
		}
		kind, arg := m[1], m[3]
		n, _ := strconv.Atoi(arg)
		rep.event("origin:"+l.Tag, 1)
		switch kind {
		case "r", "ar":
			rep.distinct(fmt.Sprintf("chain/%s/max-redirect=%d/pos=%d", kind, maxRedirect, min(n, maxRedirect+2)))
			if n > maxRedirect {
				rep.violation("redirect-chain-too-long/"+kind, fmt.Sprintf("%s was requested: position %d of an endless redirect chain with --max-redirect %d", l.URL, n, maxRedirect), w)
			}
		case "n", "nx", "nm", "n2", "nr", "nrd":
			rep.distinct(fmt.Sprintf("nest/%s/level=%d", kind, min(n, 5)))
			if n > 3 {
				rep.violation("asset-depth-exceeded/"+kind, fmt.Sprintf("%s was requested: level %d below the page (limit 3, domains-crawl off)", l.URL, n), w)
			}
		}
	}
	// attempts per URL and visit
	attempts := map[string]int{}
	feedbacks := map[string]int{}
	inserted := map[string]string{}
	notified := map[string]bool{}
	for _, e := range evs {
		switch e.Point {
		case "arch.do":
			// N is the retry index of this attempt within one visit of the item (a redirect back to the same
			// URL is a new visit): the number of attempts of the visit is the highest index + 1
			if e.N+1 > attempts[e.ID+"|"+e.URL] {
				attempts[e.ID+"|"+e.URL] = e.N + 1
			}
		case "reactor.feedback":
			feedbacks[e.ID]++
		case "reactor.insert":
			inserted[e.ID] = e.URL
		case "fin.notified":
			notified[e.ID] = true
		}
	}
	for k, n := range attempts {
		if strings.Contains(k, "/fail/") || strings.Contains(k, "/reset/") || strings.Contains(k, "/failseed/") {
			rep.distinct(fmt.Sprintf("retry/max-retry=%d/attempts=%d", maxRetry, n))
		}
		if n > maxRetry+1 {
			rep.violation("too-many-attempts", fmt.Sprintf("%s was attempted %d times in one visit with --max-retry %d", strings.SplitN(k, "|", 2)[1], n, maxRetry), w)
		}
	}
	for id, n := range feedbacks {
		if n > 4*(maxRedirect+1) {
			rep.violation("too-many-passes", fmt.Sprintf("seed %s (%s) went through the reactor %d times (bound %d)", id, inserted[id], n, 4*(maxRedirect+1)), w)
		}
	}
	switch verdict {
	case "quiescent":
		for id, u := range inserted {
			if !notified[id] {
				rep.violation("seed-never-finishes", fmt.Sprintf("seed %s (%s) never finished", id, u), w)
			}
		}
	case "stuck":
		for id, u := range inserted {
			if !notified[id] {
				rep.violation("seed-never-finishes", fmt.Sprintf("seed %s (%s) never finished; the pipeline is quiescent: %v", id, u, stuckFrames(goroutineDump())), w)
			}
		}
	default:
		// still working at the watchdog: with the bounds above already checked on everything seen so far
		unfinished := 0
		for id := range inserted {
			if !notified[id] {
				unfinished++
			}
		}
		rep.inconclusive(fmt.Sprintf("still-working-at-watchdog(%d unfinished)", unfinished))
	}
	rep.event("seeds", len(inserted))
	rep.event("origin_requests", len(org.snapshot()))
	done := make(chan struct{})
	go func() { pr.stop(); close(done) }()
	select {
	case <-done:
	case <-time.After(60 * time.Second):
	}
	return 0
}

func c06(r *vc.Run) int {
	m := newMerged()
	// Part A
	type hc struct {
		mh int
		dc []string
	}
	var hcs []hc
	for _, mh := range []int{0, 1, 2, 3} {
		for _, dc := range [][]string{nil, {"dc.example"}, {`^https?://[^/]*\bdc\.example/`}} {
			hcs = append(hcs, hc{mh, dc})
		}
	}
	cases := r.N(1500, 40000)
	parallel(len(hcs), 12, func(i int) {
		sc := c06HopsScenario{Seed: r.Seed, Index: i, MaxHops: hcs[i].mh, DomainsCrawl: hcs[i].dc, Cases: cases}
		res := runChild(os.Getenv("VZ_BIN"), "c06-hops", sc, filepath.Join(r.Scratch, fmt.Sprintf("c06h-%d", i)), 20*time.Minute)
		absorb(r, m, res, fmt.Sprintf("hops[max-hops=%d dc=%v]", sc.MaxHops, sc.DomainsCrawl), sc, true)
	})
	stageCases := m.Evaluations
	// Part B
	nRuns := r.N(12, 120)
	parallel(nRuns, 12, func(i int) {
		cfg := pipeConfig{Workers: 1 + i%4, MaxConcurrentAssets: 1 + i%3, MaxHops: 1, MaxRedirect: []int{0, 1, 3, 20}[i%4], MaxRetry: []int{0, 1, 2}[(i/4)%3], WARCPoolSize: 1, DisableSeencheck: i%2 == 1}
		sc := c06PipeScenario{Seed: r.Seed, Index: i, Cfg: cfg, NTok: 10}
		dir := filepath.Join(r.Scratch, fmt.Sprintf("c06p-%d", i))
		res := runChild(os.Getenv("VZ_BIN"), "pipe-c06", sc, dir, 8*time.Minute)
		absorb(r, m, res, fmt.Sprintf("e2e%d[max-redirect=%d max-retry=%d]", i, cfg.MaxRedirect, cfg.MaxRetry), sc, true)
		os.RemoveAll(dir)
	})
	cov := map[string]any{
		"evaluations":         m.Evaluations,
		"distinct_nontrivial": len(m.Distinct),
		"rule":                "A: one evaluation = one generated page (hops 0-3, optional redirect in front, anchors and a JSON asset with outlinks to matching / non-matching hosts) through the real stages under max-hops{0..3} x domains-crawl{off, host, regex}; B: one evaluation = one full-pipeline run against an adversarial origin (endless redirect chains at seed and asset level, loops, self-redirects, endlessly nested JSON/XML/M3U8, self-references, always-503 and always-reset URLs) under max-redirect{0,1,3,20} x max-retry{0,1,2}; distinct = distinct (rule, parameter, observed position) classes",
		"samples":             m.Samples,
		"events":              m.Events,
		"stage_level_cases":   stageCases,
		"end_to_end_runs":     nRuns,
		"classes":             m.Distinct,
	}
	if len(m.Samples) == 0 {
		cov["samples"] = []any{map[string]any{"hops_configs": hcs[:3]}, map[string]any{"adversarial_uris": []string{"/r/t1/0 -> /r/t1/1 -> ...", "/page/t0 -> /n/t0/1.json -> /n/t0/2.json -> ...", "/fail/t0/x.png (always 503)"}}}
	}
	return r.Finish("exploration", cov, []string{
		"depth rule asserted with domains-crawl off only (the statement's carve-out)",
		"attempts are counted from the archiver's own hook events (client.Do calls per seed and URL), positions and levels from the origin log (URLs encode them by construction)",
		"'finishes' = finished at structural quiescence; still working at the 240 s watchdog is inconclusive",
	}, 20)
}
