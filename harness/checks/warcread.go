package checks

import (
	"bufio"
	"bytes"
	"compress/gzip"
	"crypto/sha1"
	"encoding/base32"
	"fmt"
	"io"
	"net/http"
	"os"
	"path/filepath"
	"sort"
	"strconv"
	"strings"
)

// Independent WARC reader (stdlib only): walks the gzip members of a file, checks that each member
// decompresses on its own and holds exactly one record whose Content-Length matches its block, and
// parses HTTP response blocks to recover the payload (transfer-encoding undone, content-encoding kept).

type warcRecord struct {
	File       string
	Offset     int64
	Type       string
	TargetURI  string
	RecordID   string
	RefersTo   string
	RefersURI  string
	PayloadDig string // base32 sha1 from the header
	HTTPStatus int
	BodySHA1   string // base32 sha1 of the payload as recomputed by the reader (response records)
	BodyLen    int
	BlockLen   int
	Truncated  string
}

type warcProblem struct {
	File   string
	Offset int64
	What   string
}

type warcIndex struct {
	offsets  map[string]int64 // per file: how far it has been parsed
	Records  []warcRecord
	Problems []warcProblem
	// TrailingPartial: files whose tail is an incomplete member (allowed once, at the very end of a .open file)
	TrailingPartial map[string]int64
	EmptyMembers    int
}

func newWarcIndex() *warcIndex {
	return &warcIndex{offsets: map[string]int64{}, TrailingPartial: map[string]int64{}}
}

func b32sha1(b []byte) string {
	h := sha1.Sum(b)
	return base32.StdEncoding.EncodeToString(h[:])
}

// scan parses whatever is new in dir/*.warc.gz and *.warc.gz.open. final=true means the writers are gone:
// an incomplete trailing member is then reported by the caller according to its property.
func (ix *warcIndex) scan(dir string) {
	files, _ := filepath.Glob(filepath.Join(dir, "*.warc.gz*"))
	sort.Strings(files)
	for _, f := range files {
		base := strings.TrimSuffix(filepath.Base(f), ".open")
		ix.scanFile(f, base)
	}
}

func (ix *warcIndex) scanFile(path, base string) {
	data, err := os.ReadFile(path)
	if err != nil {
		return
	}
	off := ix.offsets[base]
	delete(ix.TrailingPartial, base)
	for off < int64(len(data)) {
		br := bytes.NewReader(data[off:])
		zr, err := gzip.NewReader(br)
		if err != nil {
			ix.TrailingPartial[base] = off
			break
		}
		zr.Multistream(false)
		raw, err := io.ReadAll(zr)
		if err != nil {
			// incomplete member (writer in progress, or a kill): leave the offset where it is
			ix.TrailingPartial[base] = off
			break
		}
		consumed := int64(len(data[off:])) - int64(br.Len())
		if len(raw) == 0 {
			// an empty gzip member (the writer closes its compressor once more when the file is finalised): holds no record at all
			ix.EmptyMembers++
			off += consumed
			ix.offsets[base] = off
			continue
		}
		rec, problem := parseWARCRecord(raw)
		rec.File, rec.Offset = base, off
		if problem != "" {
			ix.Problems = append(ix.Problems, warcProblem{base, off, problem})
		}
		ix.Records = append(ix.Records, rec)
		off += consumed
		ix.offsets[base] = off
	}
}

// parseWARCRecord parses one decompressed member: exactly one record.
func parseWARCRecord(raw []byte) (warcRecord, string) {
	var rec warcRecord
	rd := bufio.NewReader(bytes.NewReader(raw))
	line, err := rd.ReadString('\n')
	if err != nil || !strings.HasPrefix(line, "WARC/1.") {
		return rec, fmt.Sprintf("member does not start with a WARC version line: %q", truncate(line, 40))
	}
	hdr := map[string]string{}
	consumed := len(line)
	for {
		l, err := rd.ReadString('\n')
		if err != nil {
			return rec, "record header is not terminated"
		}
		consumed += len(l)
		if l == "\r\n" {
			break
		}
		k, v, ok := strings.Cut(strings.TrimRight(l, "\r\n"), ":")
		if !ok {
			return rec, fmt.Sprintf("malformed header line %q", truncate(l, 60))
		}
		hdr[strings.ToLower(strings.TrimSpace(k))] = strings.TrimSpace(v)
	}
	rec.Type = hdr["warc-type"]
	rec.TargetURI = hdr["warc-target-uri"]
	rec.RecordID = hdr["warc-record-id"]
	rec.RefersTo = hdr["warc-refers-to"]
	rec.RefersURI = hdr["warc-refers-to-target-uri"]
	rec.Truncated = hdr["warc-truncated"]
	rec.PayloadDig = strings.TrimPrefix(hdr["warc-payload-digest"], "sha1:")
	cl, err := strconv.Atoi(hdr["content-length"])
	if err != nil {
		return rec, "missing or malformed Content-Length"
	}
	rest := raw[consumed:]
	if len(rest) != cl+4 {
		return rec, fmt.Sprintf("Content-Length %d but %d bytes follow the header (expected block + CRLFCRLF): the member holds a truncated record or more than one record", cl, len(rest))
	}
	if !bytes.HasSuffix(rest, []byte("\r\n\r\n")) {
		return rec, "record does not end with CRLFCRLF"
	}
	block := rest[:cl]
	rec.BlockLen = cl
	if bd := strings.TrimPrefix(hdr["warc-block-digest"], "sha1:"); bd != "" && bd != b32sha1(block) {
		return rec, "WARC-Block-Digest does not match the block"
	}
	if rec.Type == "response" || rec.Type == "revisit" {
		resp, err := http.ReadResponse(bufio.NewReader(bytes.NewReader(block)), nil)
		if err != nil {
			return rec, "response block is not an HTTP response: " + err.Error()
		}
		rec.HTTPStatus = resp.StatusCode
		if rec.Type == "response" {
			body, err := io.ReadAll(resp.Body)
			if err != nil {
				return rec, "HTTP payload of the response block is truncated: " + err.Error()
			}
			rec.BodySHA1, rec.BodyLen = b32sha1(body), len(body)
			if rec.PayloadDig != "" && rec.PayloadDig != rec.BodySHA1 {
				return rec, "WARC-Payload-Digest does not match the payload in the block"
			}
		}
	}
	return rec, ""
}
