// vz is the harness binary: `vz run <ID> <tier>` is the orchestrator of one check,
// `vz child <kind> <scenario.json>` is a re-exec'd child that hosts one lifetime of Zeno code.
package main

import (
	"fmt"
	"io"
	"log/slog"
	"os"

	"github.com/internetarchive/Zeno/internal/verif/checks"
)

func main() {
	slog.SetDefault(slog.New(slog.NewTextHandler(io.Discard, nil)))
	if len(os.Args) < 2 {
		fmt.Fprintln(os.Stderr, "usage: vz run <ID> <tier> | vz child <kind> <file> | vz replay <ID> <file>")
		os.Exit(2)
	}
	switch os.Args[1] {
	case "run":
		if len(os.Args) < 4 {
			os.Exit(2)
		}
		os.Exit(checks.Run(os.Args[2], os.Args[3]))
	case "child":
		if len(os.Args) < 4 {
			os.Exit(2)
		}
		os.Exit(checks.Child(os.Args[2], os.Args[3]))
	case "replay":
		if len(os.Args) < 4 {
			os.Exit(2)
		}
		os.Exit(checks.Replay(os.Args[2], os.Args[3]))
	}
	os.Exit(2)
}
